"""M - program model of /repo: parsed modules, resolved names, module-level
constants (pure AST evaluation, nothing is imported or executed), classes with
MRO, functions, and a typed class-hierarchy call graph.
"""
from __future__ import annotations

import ast
import hashlib
import itertools
import os
import re
import tomllib

from .core import REPO, AnalysisError


class Unevaluable(Exception):
    pass


class FuncInfo:
    def __init__(self, module, qualname, node, cls=None):
        self.module = module
        self.qualname = qualname
        self.node = node
        self.cls = cls

    @property
    def name(self):
        return self.node.name

    @property
    def fq(self):
        return f"{self.module.name}:{self.qualname}"

    def where(self):
        return f"{self.module.rel}:{self.node.lineno} ({self.qualname})"

    def __repr__(self):
        return f"<func {self.fq}>"


class ClassInfo:
    def __init__(self, module, node):
        self.module = module
        self.node = node
        self.name = node.name
        self.bases: list = []  # ClassInfo | ('ext', dotted)
        self.methods: dict[str, FuncInfo] = {}
        self.class_attrs: dict[str, tuple] = {}  # name -> (value node|None, annotation node|None, guard)
        self.subclasses: list[ClassInfo] = []
        self.generic_arg = None  # ast node of the subscript in a base, e.g. PendingNode[Module]

    @property
    def fq(self):
        return f"{self.module.name}:{self.name}"

    def mro(self):
        out = [self]
        for b in self.bases:
            if isinstance(b, ClassInfo):
                for c in b.mro():
                    if c not in out:
                        out.append(c)
        return out

    def find_method(self, name):
        for c in self.mro():
            if name in c.methods:
                return c.methods[name]
        return None

    def find_class_attr(self, name):
        for c in self.mro():
            if name in c.class_attrs:
                return c, c.class_attrs[name]
        return None

    def all_subclasses(self):
        out = []
        for s in self.subclasses:
            out.append(s)
            out.extend(x for x in s.all_subclasses() if x not in out)
        return out

    def is_subclass_of(self, other):
        return other in self.mro()

    def __repr__(self):
        return f"<class {self.fq}>"


class ModuleInfo:
    def __init__(self, name, path, rel, src):
        self.name = name
        self.path = path
        self.rel = rel
        self.src = src
        self.tree = ast.parse(src, path)
        self.bindings: dict[str, tuple] = {}
        self.consts: dict[str, object] = {}
        self.functions: dict[str, FuncInfo] = {}
        self.classes: dict[str, ClassInfo] = {}
        self.all_names = None
        self.star_imports: list[str] = []

    def __repr__(self):
        return f"<module {self.name}>"


class ExtRef:
    """A reference to something outside the repository (stdlib module / attribute)."""

    def __init__(self, dotted):
        self.dotted = dotted

    def __repr__(self):
        return f"<ext {self.dotted}>"

    def __eq__(self, o):
        return isinstance(o, ExtRef) and o.dotted == self.dotted

    def __hash__(self):
        return hash(self.dotted)


class CountIter:
    """The `enum = itertools.count(); X = next(enum)` idiom."""

    def __init__(self, start=0):
        self.n = start


VERSION_INFO = ExtRef("sys.version_info")


class Program:
    def __init__(self, repo=None):
        self.repo = repo or REPO
        self.modules: dict[str, ModuleInfo] = {}
        self.files: list[str] = []
        self._load()
        self._bind_all()
        self._link_classes()
        self._eval_consts()

    # ------------------------------------------------------------------ load
    def _packages(self):
        pp = os.path.join(self.repo, "pyproject.toml")
        pkgs = None
        if os.path.exists(pp):
            with open(pp, "rb") as f:
                data = tomllib.load(f)
            pkgs = (
                data.get("tool", {})
                .get("setuptools", {})
                .get("packages", {})
                .get("find", {})
                .get("include")
            )
        if not pkgs:
            pkgs = ["oneliner", "oneliner.presets"]
        return pkgs

    def _load(self):
        for pkg in self._packages():
            d = os.path.join(self.repo, *pkg.split("."))
            if not os.path.isdir(d):
                raise AnalysisError(f"package directory {d} of the build is missing")
            for fn in sorted(os.listdir(d)):
                if not fn.endswith(".py"):
                    continue
                path = os.path.join(d, fn)
                mod = pkg if fn == "__init__.py" else f"{pkg}.{fn[:-3]}"
                with open(path, encoding="utf8") as f:
                    src = f.read()
                try:
                    mi = ModuleInfo(mod, path, os.path.relpath(path, self.repo), src)
                except SyntaxError as e:
                    raise AnalysisError(f"cannot parse {path}: {e}")
                self.modules[mod] = mi
                self.files.append(mi.rel)
        if "oneliner" not in self.modules:
            raise AnalysisError("package oneliner not found")

    def digest(self):
        h = hashlib.sha256()
        for m in sorted(self.modules.values(), key=lambda m: m.name):
            h.update(m.name.encode())
            h.update(m.src.encode())
        return h.hexdigest()

    # ------------------------------------------------------------- bindings
    def _abs_module(self, mi: ModuleInfo, node: ast.ImportFrom):
        if node.level == 0:
            return node.module
        is_pkg = mi.path.endswith("__init__.py")
        parts = mi.name.split(".")
        if not is_pkg:
            parts = parts[:-1]
        if node.level > 1:
            parts = parts[: len(parts) - (node.level - 1)]
        if node.module:
            parts = parts + node.module.split(".")
        return ".".join(parts)

    def _bind_stmts(self, mi: ModuleInfo, stmts, guard=None):
        for st in stmts:
            if isinstance(st, ast.Import):
                for a in st.names:
                    if a.asname:
                        mi.bindings[a.asname] = ("module", a.name)
                    else:
                        mi.bindings[a.name.split(".")[0]] = ("module", a.name.split(".")[0])
            elif isinstance(st, ast.ImportFrom):
                src = self._abs_module(mi, st)
                for a in st.names:
                    if a.name == "*":
                        mi.star_imports.append(src)
                    else:
                        mi.bindings[a.asname or a.name] = ("from", src, a.name)
            elif isinstance(st, ast.FunctionDef):
                fi = FuncInfo(mi, st.name, st)
                fi.guard = guard
                mi.functions[st.name] = fi
                mi.bindings[st.name] = ("func", fi)
            elif isinstance(st, ast.ClassDef):
                ci = ClassInfo(mi, st)
                ci.guard = guard
                mi.classes[st.name] = ci
                mi.bindings[st.name] = ("class", ci)
                self._bind_class(ci)
            elif isinstance(st, ast.Assign):
                for t in st.targets:
                    if isinstance(t, ast.Name):
                        mi.bindings[t.id] = ("assign", st.value, st)
                        if t.id == "__all__":
                            try:
                                mi.all_names = list(ast.literal_eval(st.value))
                            except Exception:
                                pass
            elif isinstance(st, ast.AnnAssign):
                if isinstance(st.target, ast.Name) and st.value is not None:
                    mi.bindings[st.target.id] = ("assign", st.value, st)
            elif isinstance(st, ast.If):
                self._bind_stmts(mi, st.body, guard=(guard, st.test, True))
                self._bind_stmts(mi, st.orelse, guard=(guard, st.test, False))

    def _bind_class(self, ci: ClassInfo, stmts=None, guard=None):
        for st in stmts if stmts is not None else ci.node.body:
            if isinstance(st, ast.FunctionDef):
                fi = FuncInfo(ci.module, f"{ci.name}.{st.name}", st, ci)
                fi.guard = guard
                ci.methods[st.name] = fi
            elif isinstance(st, ast.Assign):
                for t in st.targets:
                    if isinstance(t, ast.Name):
                        ci.class_attrs[t.id] = (st.value, None, guard)
            elif isinstance(st, ast.AnnAssign) and isinstance(st.target, ast.Name):
                ci.class_attrs[st.target.id] = (st.value, st.annotation, guard)
            elif isinstance(st, ast.If):
                self._bind_class(ci, st.body, (guard, st.test, True))
                self._bind_class(ci, st.orelse, (guard, st.test, False))

    def _bind_all(self):
        for mi in self.modules.values():
            self._bind_stmts(mi, mi.tree.body)

    def public_names(self, modname):
        mi = self.modules.get(modname)
        if mi is None:
            return None
        if mi.all_names is not None:
            return list(mi.all_names)
        names = [n for n in mi.bindings if not n.startswith("_")]
        for s in mi.star_imports:
            sub = self.public_names(s)
            if sub:
                names.extend(n for n in sub if n not in names)
        return names

    def resolve(self, modname, name, _seen=None):
        """Resolve a global name of a module to ClassInfo | FuncInfo | ModuleInfo |
        ExtRef | ('assign', node, module) | None."""
        _seen = _seen or set()
        if (modname, name) in _seen:
            return None
        _seen.add((modname, name))
        mi = self.modules.get(modname)
        if mi is None:
            return ExtRef(f"{modname}.{name}")
        b = mi.bindings.get(name)
        if b is not None:
            kind = b[0]
            if kind == "module":
                return self.modules.get(b[1]) or ExtRef(b[1])
            if kind == "from":
                src, nm = b[1], b[2]
                if src in self.modules:
                    sub = f"{src}.{nm}"
                    r = self.resolve(src, nm, _seen)
                    if r is None and sub in self.modules:
                        return self.modules[sub]
                    return r
                if f"{src}.{nm}" in self.modules:
                    return self.modules[f"{src}.{nm}"]
                return ExtRef(f"{src}.{nm}")
            if kind == "func":
                return b[1]
            if kind == "class":
                return b[1]
            if kind == "assign":
                return ("assign", b[1], mi)
        for s in reversed(mi.star_imports):
            if s in self.modules:
                pub = self.public_names(s)
                if name in pub:
                    return self.resolve(s, name, _seen)
            elif s == "ast":
                if hasattr(ast, name) and not name.startswith("_"):
                    return ExtRef(f"ast.{name}")
            else:
                pass
        return None

    # ----------------------------------------------------------- class links
    def _link_classes(self):
        for mi in self.modules.values():
            for ci in mi.classes.values():
                for b in ci.node.bases:
                    tgt = b
                    if isinstance(b, ast.Subscript):
                        ci.generic_arg = b.slice
                        tgt = b.value
                    r = self.resolve_expr_static(mi, tgt)
                    if isinstance(r, ClassInfo):
                        ci.bases.append(r)
                        r.subclasses.append(ci)
                    else:
                        ci.bases.append(r)

    def resolve_expr_static(self, mi: ModuleInfo, node):
        """Resolve Name / dotted Attribute at module scope."""
        if isinstance(node, ast.Name):
            return self.resolve(mi.name, node.id)
        if isinstance(node, ast.Attribute):
            base = self.resolve_expr_static(mi, node.value)
            if isinstance(base, ModuleInfo):
                sub = f"{base.name}.{node.attr}"
                r = self.resolve(base.name, node.attr)
                if r is None and sub in self.modules:
                    return self.modules[sub]
                return r
            if isinstance(base, ExtRef):
                return ExtRef(f"{base.dotted}.{node.attr}")
            if isinstance(base, ClassInfo):
                m = base.find_method(node.attr)
                if m:
                    return m
        return None

    def all_classes(self):
        for mi in self.modules.values():
            yield from mi.classes.values()

    def all_functions(self):
        """Every function/method (including nested defs are NOT listed; they are
        visited through their parents)."""
        for mi in self.modules.values():
            yield from mi.functions.values()
            for ci in mi.classes.values():
                yield from ci.methods.values()

    def cls(self, name):
        found = [c for c in self.all_classes() if c.name == name]
        if len(found) != 1:
            raise AnalysisError(f"anchor class {name} not found (or ambiguous: {found})")
        return found[0]

    def func(self, modname, qualname):
        mi = self.modules.get(modname)
        if mi is None:
            raise AnalysisError(f"anchor module {modname} vanished")
        if "." in qualname:
            c, m = qualname.split(".")
            ci = mi.classes.get(c)
            if ci is None or m not in ci.methods:
                raise AnalysisError(f"anchor {modname}:{qualname} vanished")
            return ci.methods[m]
        if qualname not in mi.functions:
            raise AnalysisError(f"anchor {modname}:{qualname} vanished")
        return mi.functions[qualname]

    # ------------------------------------------------------ const evaluation
    def _eval_consts(self):
        for mi in self.modules.values():
            mi._const_state = {}
        for mi in self.modules.values():
            self._eval_module(mi)
        for mi in self.modules.values():
            self._eval_registries(mi)

    def _eval_registries(self, mi):
        """A module-level dict filled at import time by a registering decorator:
            REG = {}
            def register(key):
                def deco(f): REG[key] = f; return f
                return deco
            @register(ast.Name)
            def unparse_Name(...): ...
        Its value after import is {key: function}; record it as the constant value of REG."""
        tables: dict[str, dict] = {}
        for fi in mi.functions.values():
            for d in fi.node.decorator_list:
                if not (isinstance(d, ast.Call) and isinstance(d.func, ast.Name) and len(d.args) == 1 and not d.keywords):
                    continue
                deco = mi.functions.get(d.func.id)
                if deco is None:
                    continue
                dparams = [a.arg for a in deco.node.args.args]
                inner = [n for n in ast.walk(deco.node) if isinstance(n, ast.FunctionDef) and n is not deco.node]
                stores = [
                    n for n in ast.walk(deco.node)
                    if isinstance(n, ast.Assign) and len(n.targets) == 1 and isinstance(n.targets[0], ast.Subscript)
                    and isinstance(n.targets[0].value, ast.Name) and isinstance(n.targets[0].slice, ast.Name)
                    and dparams and n.targets[0].slice.id == dparams[0] and isinstance(n.value, ast.Name)
                ]
                if len(stores) != 1 or len(inner) != 1 or stores[0].value.id not in [a.arg for a in inner[0].args.args]:
                    continue
                reg = stores[0].targets[0].value.id
                if not (reg in mi.consts and mi.consts[reg] == {}):
                    continue
                try:
                    k = self.eval_const(mi, d.args[0])
                except Exception:
                    continue
                tables.setdefault(reg, {})[k] = fi
        for reg, tab in tables.items():
            mi.consts[reg] = tab

    def _eval_module(self, mi):
        if getattr(mi, "_evaluated", False):
            return
        mi._evaluated = True
        self._eval_stmts(mi, mi.tree.body)

    def _eval_stmts(self, mi, stmts):
        for st in stmts:
            if isinstance(st, (ast.Assign, ast.AnnAssign)):
                value = st.value
                if value is None:
                    continue
                targets = st.targets if isinstance(st, ast.Assign) else [st.target]
                try:
                    v = self.eval_const(mi, value)
                except Unevaluable:
                    continue
                for t in targets:
                    if isinstance(t, ast.Name):
                        mi.consts[t.id] = v
            elif isinstance(st, ast.If):
                # version guards: both sides are recorded by the rules; for constants
                # evaluate the side that holds for *no particular* version only when
                # the test is itself constant
                try:
                    t = self.eval_const(mi, st.test)
                except Unevaluable:
                    continue
                self._eval_stmts(mi, st.body if t else st.orelse)

    def const(self, modname, name):
        mi = self.modules[modname]
        self._eval_module(mi)
        if name in mi.consts:
            return mi.consts[name]
        raise AnalysisError(f"constant {modname}.{name} could not be evaluated from the source")

    def eval_const(self, mi, node, env=None):
        ev = self.eval_const
        if isinstance(node, ast.Constant):
            return node.value
        if isinstance(node, ast.Name):
            if env and node.id in env:
                return env[node.id]
            if node.id in mi.consts:
                return mi.consts[node.id]
            r = self.resolve(mi.name, node.id)
            return self._resolved_to_value(r, node.id)
        if isinstance(node, ast.Attribute):
            base = ev(mi, node.value, env)
            if isinstance(base, ModuleInfo):
                self._eval_module(base)
                if node.attr in base.consts:
                    return base.consts[node.attr]
                r = self.resolve(base.name, node.attr)
                return self._resolved_to_value(r, node.attr)
            if isinstance(base, ExtRef):
                if base.dotted == "ast" and hasattr(ast, node.attr):
                    return getattr(ast, node.attr)
                return ExtRef(f"{base.dotted}.{node.attr}")
            raise Unevaluable(ast.dump(node))
        if isinstance(node, (ast.List, ast.Tuple, ast.Set)):
            items = [ev(mi, e, env) for e in node.elts]
            if isinstance(node, ast.List):
                return items
            if isinstance(node, ast.Tuple):
                return tuple(items)
            return set(items)
        if isinstance(node, ast.Dict):
            d = {}
            for k, v in zip(node.keys, node.values):
                if k is None:
                    d.update(ev(mi, v, env))
                else:
                    d[ev(mi, k, env)] = ev(mi, v, env)
            return d
        if isinstance(node, ast.BinOp):
            l, r = ev(mi, node.left, env), ev(mi, node.right, env)
            ops = {
                ast.Add: lambda a, b: a + b, ast.Sub: lambda a, b: a - b,
                ast.Mult: lambda a, b: a * b, ast.LShift: lambda a, b: a << b,
                ast.RShift: lambda a, b: a >> b, ast.BitOr: lambda a, b: a | b,
                ast.BitAnd: lambda a, b: a & b, ast.FloorDiv: lambda a, b: a // b,
                ast.Mod: lambda a, b: a % b, ast.Pow: lambda a, b: a ** b,
            }
            f = ops.get(type(node.op))
            if f is None or isinstance(l, (ExtRef, ClassInfo)) or isinstance(r, (ExtRef, ClassInfo)):
                raise Unevaluable(ast.dump(node))
            try:
                return f(l, r)
            except Exception:
                raise Unevaluable(ast.dump(node))
        if isinstance(node, ast.UnaryOp):
            v = ev(mi, node.operand, env)
            if isinstance(node.op, ast.USub):
                return -v
            if isinstance(node.op, ast.Not):
                return not v
            if isinstance(node.op, ast.UAdd):
                return +v
            if isinstance(node.op, ast.Invert):
                return ~v
        if isinstance(node, ast.JoinedStr):
            out = []
            for v in node.values:
                if isinstance(v, ast.Constant):
                    out.append(v.value)
                elif isinstance(v, ast.FormattedValue) and v.format_spec is None and v.conversion == -1:
                    out.append(str(ev(mi, v.value, env)))
                else:
                    raise Unevaluable("fstring")
            return "".join(out)
        if isinstance(node, ast.IfExp):
            return ev(mi, node.body, env) if ev(mi, node.test, env) else ev(mi, node.orelse, env)
        if isinstance(node, ast.Subscript):
            base = ev(mi, node.value, env)
            if isinstance(base, (ExtRef, ClassInfo, FuncInfo)):
                raise Unevaluable("generic alias")
            idx = ev(mi, node.slice, env)
            try:
                return base[idx]
            except Exception:
                raise Unevaluable(ast.dump(node))
        if isinstance(node, ast.Call):
            fn = None
            try:
                fn = ev(mi, node.func, env)
            except Unevaluable:
                pass
            if isinstance(fn, ExtRef):
                if fn.dotted == "itertools.count" and len(node.args) <= 1 and not node.keywords:
                    return CountIter(ev(mi, node.args[0], env) if node.args else 0)
            if isinstance(node.func, ast.Name) and node.func.id == "next" and len(node.args) == 1:
                it = ev(mi, node.args[0], env)
                if isinstance(it, CountIter):
                    v = it.n
                    it.n += 1
                    return v
            if isinstance(node.func, ast.Attribute) and node.func.attr == "format":
                s = ev(mi, node.func.value, env)
                if isinstance(s, str):
                    args = [ev(mi, a, env) for a in node.args]
                    return s.format(*args)
            if isinstance(node.func, ast.Name) and node.func.id in ("tuple", "list", "set", "frozenset") and len(node.args) <= 1:
                if not node.args:
                    return {"tuple": (), "list": [], "set": set(), "frozenset": frozenset()}[node.func.id]
                v = ev(mi, node.args[0], env)
                return {"tuple": tuple, "list": list, "set": set, "frozenset": frozenset}[node.func.id](v)
            raise Unevaluable(ast.dump(node))
        if isinstance(node, ast.Compare) and len(node.ops) == 1:
            l = ev(mi, node.left, env)
            r = ev(mi, node.comparators[0], env)
            if isinstance(l, (ExtRef,)) or isinstance(r, (ExtRef,)):
                raise Unevaluable("compare ext")
            op = node.ops[0]
            try:
                if isinstance(op, ast.Eq):
                    return l == r
                if isinstance(op, ast.NotEq):
                    return l != r
                if isinstance(op, ast.Lt):
                    return l < r
                if isinstance(op, ast.Gt):
                    return l > r
                if isinstance(op, ast.In):
                    return l in r
                if isinstance(op, ast.NotIn):
                    return l not in r
            except Exception:
                pass
        if isinstance(node, ast.BoolOp):
            vals = [ev(mi, v, env) for v in node.values]
            if isinstance(node.op, ast.And):
                r = True
                for v in vals:
                    r = v
                    if not v:
                        break
                return r
            r = False
            for v in vals:
                r = v
                if v:
                    break
            return r
        raise Unevaluable(ast.dump(node)[:80])

    def _resolved_to_value(self, r, name):
        if isinstance(r, (ClassInfo, FuncInfo, ModuleInfo)):
            return r
        if isinstance(r, ExtRef):
            if r.dotted.startswith("ast."):
                nm = r.dotted[4:]
                if hasattr(ast, nm) and isinstance(getattr(ast, nm), type):
                    return getattr(ast, nm)
            return r
        if isinstance(r, tuple) and r[0] == "assign":
            m2 = r[2]
            self._eval_module(m2)
            # find the name the assign is bound to
            for k, b in m2.bindings.items():
                if b[0] == "assign" and b[1] is r[1] and k in m2.consts:
                    return m2.consts[k]
            return self.eval_const(m2, r[1])
        if name in ("True", "False", "None"):
            return {"True": True, "False": False, "None": None}[name]
        raise Unevaluable(name)


# ---------------------------------------------------------------------------
# version guards


def version_test(prog: Program, mi: ModuleInfo, test) -> tuple | None:
    """Recognise `sys.version_info <op> (a, b)`; returns (op, (a, b)) or None."""
    if not (isinstance(test, ast.Compare) and len(test.ops) == 1):
        return None
    l, r = test.left, test.comparators[0]

    def is_vi(n):
        if isinstance(n, ast.Attribute) and n.attr == "version_info":
            return True
        if isinstance(n, ast.Subscript):
            return is_vi(n.value)
        if isinstance(n, ast.Name):
            res = prog.resolve(mi.name, n.id)
            return isinstance(res, ExtRef) and res.dotted == "sys.version_info"
        return False

    opmap = {ast.Lt: "<", ast.LtE: "<=", ast.Gt: ">", ast.GtE: ">=", ast.Eq: "==", ast.NotEq: "!="}
    flip = {"<": ">", "<=": ">=", ">": "<", ">=": "<=", "==": "==", "!=": "!="}
    try:
        if is_vi(l):
            return opmap[type(test.ops[0])], ast.literal_eval(r)
        if is_vi(r):
            return flip[opmap[type(test.ops[0])]], ast.literal_eval(l)
    except Exception:
        return ("?", None)
    return None


def mentions_host_probe(prog: Program, mi: ModuleInfo, node) -> list[str]:
    """Names of host probes (sys.version_info, sys.platform, os.environ, ...) read in `node`."""
    out = []
    for n in ast.walk(node):
        if isinstance(n, ast.Attribute):
            base = n.value
            if isinstance(base, ast.Name):
                r = prog.resolve(mi.name, base.id)
                dotted = None
                if isinstance(r, ExtRef):
                    dotted = r.dotted
                elif r is None and base.id in ("sys", "os", "platform"):
                    dotted = base.id
                if dotted in ("sys", "os", "platform", "locale", "time", "datetime") or (
                    dotted and dotted.split(".")[0] in ("sys", "os", "platform", "locale")
                ):
                    if not (dotted == "sys" and n.attr in ("intern",)):
                        out.append(f"{dotted}.{n.attr}")
        elif isinstance(n, ast.Name):
            r = prog.resolve(mi.name, n.id)
            if isinstance(r, ExtRef) and r.dotted.split(".")[0] in ("sys", "os", "platform", "locale") and "." in r.dotted:
                out.append(r.dotted)
    return out


# ---------------------------------------------------------------------------
# light type inference + call graph


def _ann_classes(prog: Program, mi: ModuleInfo, ann):
    """Classes named by an annotation node: returns (classes, elem_classes)."""
    if ann is None:
        return set(), set()
    if isinstance(ann, ast.Constant) and isinstance(ann.value, str):
        try:
            ann = ast.parse(ann.value, mode="eval").body
        except SyntaxError:
            return set(), set()
    if isinstance(ann, ast.BinOp) and isinstance(ann.op, ast.BitOr):
        a = _ann_classes(prog, mi, ann.left)
        b = _ann_classes(prog, mi, ann.right)
        return a[0] | b[0], a[1] | b[1]
    if isinstance(ann, ast.Subscript):
        base = ann.value
        nm = base.id if isinstance(base, ast.Name) else (base.attr if isinstance(base, ast.Attribute) else None)
        if nm in ("list", "set", "List", "Set", "Iterator", "Iterable", "Sequence", "tuple", "deque", "Deque", "frozenset", "FrozenSet", "MutableSequence", "Collection", "Generator", "Tuple", "Reversible"):
            inner = ann.slice
            if isinstance(inner, ast.Tuple):
                inner = inner.elts[0]
            return set(), _ann_classes(prog, mi, inner)[0]
        if nm in ("dict", "Dict"):
            inner = ann.slice
            if isinstance(inner, ast.Tuple) and len(inner.elts) == 2:
                return set(), _ann_classes(prog, mi, inner.elts[1])[0]
            return set(), set()
        if nm in ("Optional",):
            return _ann_classes(prog, mi, ann.slice)
        # Generic[T] alias of a repo class
        return _ann_classes(prog, mi, base)
    r = None
    if isinstance(ann, ast.Name):
        r = prog.resolve(mi.name, ann.id)
    elif isinstance(ann, ast.Attribute):
        # dotted: take the last component and look it up by class name
        r = prog.resolve_expr_static(mi, ann)
        if r is None:
            cands = [c for c in prog.all_classes() if c.name == ann.attr]
            if len(cands) == 1:
                r = cands[0]
    if isinstance(r, ClassInfo):
        return {r}, set()
    return set(), set()


_BUILTIN_METHODS = (
    set(dir(list)) | set(dir(str)) | set(dir(dict)) | set(dir(set)) | set(dir(tuple))
    | {"send", "throw", "close"}
)


class Typer:
    """Receiver-type inference from annotations, good enough to resolve the
    method calls of this repository (falls back to name-based CHA)."""

    def __init__(self, prog: Program):
        self.prog = prog
        self.attr_types: dict[str, tuple[set, set]] = {}  # attr name -> (classes, elem classes)
        self._collect_attr_types()

    def _collect_attr_types(self):
        prog = self.prog
        for ci in prog.all_classes():
            mi = ci.module
            for name, (val, ann, _g) in ci.class_attrs.items():
                c, e = _ann_classes(prog, mi, ann)
                self._merge(ci, name, c, e)
            for fi in ci.methods.values():
                params = {a.arg: a.annotation for a in fi.node.args.args + fi.node.args.kwonlyargs}
                for n in ast.walk(fi.node):
                    tgt = None
                    ann = None
                    val = None
                    if isinstance(n, ast.AnnAssign):
                        tgt, ann, val = n.target, n.annotation, n.value
                    elif isinstance(n, ast.Assign) and len(n.targets) == 1:
                        tgt, val = n.targets[0], n.value
                    if (
                        isinstance(tgt, ast.Attribute)
                        and isinstance(tgt.value, ast.Name)
                        and tgt.value.id == "self"
                    ):
                        c, e = _ann_classes(prog, mi, ann)
                        if not c and not e and isinstance(val, ast.Name) and val.id in params:
                            c, e = _ann_classes(prog, mi, params[val.id])
                        if not c and not e and isinstance(val, ast.Call):
                            r = prog.resolve_expr_static(mi, val.func) if isinstance(val.func, (ast.Name, ast.Attribute)) else None
                            if isinstance(r, ClassInfo):
                                c = {r}
                        self._merge(ci, tgt.attr, c, e)

    def _merge(self, ci, name, c, e):
        if not c and not e:
            return
        key = name
        old = self.attr_types.get(key, (set(), set()))
        self.attr_types[key] = (old[0] | c, old[1] | e)

    def expr_types(self, fi: FuncInfo, node, locals_):
        """-> (classes, elem_classes) (possibly empty = unknown)."""
        prog = self.prog
        mi = fi.module
        if isinstance(node, ast.Name):
            if node.id == "self" and fi.cls is not None:
                return {fi.cls}, set()
            if node.id in locals_:
                return locals_[node.id]
            return set(), set()
        if isinstance(node, ast.Attribute):
            return self.attr_types.get(node.attr, (set(), set()))
        if isinstance(node, ast.Subscript):
            _c, e = self.expr_types(fi, node.value, locals_)
            return e, set()
        if isinstance(node, ast.Call):
            f = node.func
            if isinstance(f, ast.Attribute) and f.attr == "pop":
                _c, e = self.expr_types(fi, f.value, locals_)
                return e, set()
            if isinstance(f, ast.Name) and f.id in ("reversed", "iter", "list", "sorted") and node.args:
                return self.expr_types(fi, node.args[0], locals_)
            if isinstance(f, ast.Name) and f.id == "super":
                if fi.cls is not None:
                    return {b for b in fi.cls.bases if isinstance(b, ClassInfo)}, set()
            for tgt in self.call_targets(fi, node, locals_, typed_only=True):
                if isinstance(tgt, ClassInfo):
                    return {tgt}, set()
                if isinstance(tgt, FuncInfo) and tgt.node.returns is not None:
                    return _ann_classes(prog, tgt.module, tgt.node.returns)
            return set(), set()
        return set(), set()

    def local_types(self, fi: FuncInfo):
        """Flow-insensitive local variable types of a function (params + assignments)."""
        prog = self.prog
        mi = fi.module
        loc: dict[str, tuple[set, set]] = {}
        a = fi.node.args
        for p in a.posonlyargs + a.args + a.kwonlyargs:
            c, e = _ann_classes(prog, mi, p.annotation)
            if c or e:
                loc[p.arg] = (c, e)
        for _ in range(2):
            for n in ast.walk(fi.node):
                if isinstance(n, ast.AnnAssign) and isinstance(n.target, ast.Name):
                    c, e = _ann_classes(prog, mi, n.annotation)
                    if c or e:
                        loc[n.target.id] = (c, e)
                elif isinstance(n, ast.Assign) and len(n.targets) == 1 and isinstance(n.targets[0], ast.Name):
                    c, e = self.expr_types(fi, n.value, loc)
                    if c or e:
                        old = loc.get(n.targets[0].id, (set(), set()))
                        loc[n.targets[0].id] = (old[0] | c, old[1] | e)
                elif isinstance(n, (ast.For, ast.comprehension)) and isinstance(n.target, ast.Name):
                    it = n.iter
                    _c, e = self.expr_types(fi, it, loc)
                    if e:
                        old = loc.get(n.target.id, (set(), set()))
                        loc[n.target.id] = (old[0] | e, old[1])
        return loc

    def call_targets(self, fi: FuncInfo, call: ast.Call, locals_, typed_only=False):
        """Resolved callees of a call: list of FuncInfo | ClassInfo | ExtRef | ('unknown', text)."""
        prog = self.prog
        mi = fi.module
        f = call.func
        if isinstance(f, ast.Name):
            # nested function?
            for n in ast.walk(fi.node):
                if isinstance(n, ast.FunctionDef) and n is not fi.node and n.name == f.id:
                    return [FuncInfo(mi, f"{fi.qualname}.<locals>.{n.name}", n, None)]
            if f.id in locals_ and locals_[f.id][0]:
                return list(locals_[f.id][0])
            tab = self._table_targets(fi, f.id)
            if tab:
                return tab
            r = prog.resolve(mi.name, f.id)
            if isinstance(r, (FuncInfo, ClassInfo, ExtRef)):
                return [r]
            if isinstance(r, tuple) and r[0] == "assign":
                # alias of a function / table lookup: resolved by the caller when needed
                return [("unknown", f.id)]
            if f.id in __builtins__ if isinstance(__builtins__, dict) else hasattr(__builtins__, f.id):
                return [ExtRef(f"builtins.{f.id}")]
            return [("unknown", f.id)]
        if isinstance(f, ast.Attribute):
            r = prog.resolve_expr_static(mi, f) if self._is_static_chain(f) else None
            if isinstance(r, (FuncInfo, ClassInfo, ExtRef)):
                return [r]
            classes, _e = self.expr_types(fi, f.value, locals_)
            out = []
            if classes:
                for c in classes:
                    m = c.find_method(f.attr)
                    if m:
                        out.append(m)
                    if not (isinstance(f.value, ast.Call) and isinstance(f.value.func, ast.Name) and f.value.func.id == "super"):
                        for s in c.all_subclasses():
                            if f.attr in s.methods and s.methods[f.attr] not in out:
                                out.append(s.methods[f.attr])
                if out:
                    return out
                # attribute holding a callable (e.g. expr_wraper): unknown here
                return [("attr-callable", f.attr)]
            if typed_only:
                return []
            # name-based CHA fallback
            for c in prog.all_classes():
                if f.attr in c.methods:
                    out.append(c.methods[f.attr])
            if out:
                return out
            if f.attr in _BUILTIN_METHODS:
                return [ExtRef(f"builtins.method.{f.attr}")]
            return [("unknown-method", f.attr)]
        if isinstance(f, ast.Subscript):
            # table lookup call: ast2pending[type(node)](...)
            try:
                tab = None
                if isinstance(f.value, ast.Name):
                    tab = prog.const(mi.name, f.value.id)
                if isinstance(tab, dict):
                    return [v for v in tab.values() if isinstance(v, (ClassInfo, FuncInfo))]
            except AnalysisError:
                pass
            return [("unknown", ast.unparse(f))]
        if isinstance(f, ast.Call):
            # factory(...)(...): whatever classes / functions the factory returns by name
            out = []
            for tgt in self.call_targets(fi, f, locals_, typed_only=True):
                if isinstance(tgt, FuncInfo):
                    for n in ast.walk(tgt.node):
                        if isinstance(n, ast.Return) and isinstance(n.value, (ast.Name, ast.Attribute)):
                            r = prog.resolve_expr_static(tgt.module, n.value)
                            if isinstance(r, (ClassInfo, FuncInfo)) and r not in out:
                                out.append(r)
            if out:
                return out
            # type(self.node)(**...) and friends
            return [("dynamic", ast.unparse(f)[:60])]
        return [("unknown", ast.unparse(f)[:60])]

    def _table_targets(self, fi, name):
        """Callables a local variable may hold when it is read from a dispatch table:
        `x = TABLE[k]` / `x = TABLE.get(k, default)` with TABLE a constant dict of functions/classes
        (module constant or class attribute)."""
        prog = self.prog
        mi = fi.module
        out = []
        for n in ast.walk(fi.node):
            if not (isinstance(n, ast.Assign) and any(isinstance(t, ast.Name) and t.id == name for t in n.targets)):
                continue
            v = n.value
            base = None
            default = None
            if isinstance(v, ast.Subscript):
                base = v.value
            elif isinstance(v, ast.Call) and isinstance(v.func, ast.Attribute) and v.func.attr == "get":
                base = v.func.value
                default = v.args[1] if len(v.args) > 1 else None
            if base is None:
                continue
            table = None
            try:
                if isinstance(base, ast.Name):
                    table = prog.const(mi.name, base.id)
                elif isinstance(base, ast.Attribute):
                    for ci in ([fi.cls] if fi.cls else []) + list(prog.all_classes()):
                        ca = ci.find_class_attr(base.attr) if ci else None
                        if ca and ca[1][0] is not None:
                            table = prog.eval_const(ca[0].module, ca[1][0])
                            break
            except Exception:
                table = None
            if isinstance(table, dict):
                out.extend(x for x in table.values() if isinstance(x, (FuncInfo, ClassInfo)))
                if default is not None and isinstance(default, (ast.Name, ast.Attribute)):
                    r = prog.resolve_expr_static(mi, default)
                    if isinstance(r, (FuncInfo, ClassInfo)):
                        out.append(r)
        return out

    def _is_static_chain(self, node):
        while isinstance(node, ast.Attribute):
            node = node.value
        if not isinstance(node, ast.Name):
            return False
        return node.id != "self"


class CallGraph:
    def __init__(self, prog: Program, typer: Typer | None = None):
        self.prog = prog
        self.typer = typer or Typer(prog)
        self.edges: dict[str, set[str]] = {}
        self.funcs: dict[str, FuncInfo] = {}
        self.unresolved: list[tuple[str, str]] = []
        self.ext_calls: dict[str, set[str]] = {}
        self.call_sites: dict[str, list] = {}
        self.guessed_edges: set[tuple[str, str]] = set()
        for fi in prog.all_functions():
            self._add_func(fi)
        # module-level code as pseudo functions
        for mi in prog.modules.values():
            self._module_level(mi)

    def _add_func(self, fi: FuncInfo):
        if fi.fq in self.funcs:
            return
        self.funcs[fi.fq] = fi
        self.edges[fi.fq] = set()
        self.ext_calls[fi.fq] = set()
        self.call_sites[fi.fq] = []
        loc = self.typer.local_types(fi)
        # decorators (and defaults) are evaluated when the def statement runs, by the enclosing scope
        def_time = set()
        if isinstance(fi.node, (ast.FunctionDef, ast.AsyncFunctionDef)) and fi.qualname != "<module>":
            for d in list(fi.node.decorator_list) + list(fi.node.args.defaults) + [x for x in fi.node.args.kw_defaults if x is not None]:
                def_time |= {id(x) for x in ast.walk(d)}
        for n in ast.walk(fi.node):
            if isinstance(n, ast.Call) and id(n) not in def_time:
                typed = self.typer.call_targets(fi, n, loc, typed_only=True) if isinstance(n.func, ast.Attribute) else None
                for tgt in self.typer.call_targets(fi, n, loc):
                    self._edge(fi, n, tgt)
                    if typed is not None and not typed and isinstance(tgt, FuncInfo):
                        # receiver of unknown type: every method of that name (class-hierarchy fallback)
                        self.guessed_edges.add((fi.fq, tgt.fq))

    def _edge(self, fi, call, tgt):
        if isinstance(tgt, ClassInfo):
            init = tgt.find_method("__init__")
            if init:
                self.edges[fi.fq].add(init.fq)
                self.call_sites[fi.fq].append((call, init))
        elif isinstance(tgt, FuncInfo):
            if tgt.fq not in self.funcs and tgt.cls is None and "<locals>" in tgt.qualname:
                self._add_func(tgt)
            self.edges[fi.fq].add(tgt.fq)
            self.call_sites[fi.fq].append((call, tgt))
        elif isinstance(tgt, ExtRef):
            self.ext_calls[fi.fq].add(tgt.dotted)
            self.call_sites[fi.fq].append((call, tgt))
        else:
            self.unresolved.append((fi.fq, f"{tgt[0]}:{tgt[1]} at line {call.lineno}"))
            self.call_sites[fi.fq].append((call, tgt))

    def _module_level(self, mi):
        pseudo = ast.FunctionDef(
            name="<module>", args=ast.arguments(posonlyargs=[], args=[], kwonlyargs=[], kw_defaults=[], defaults=[]),
            body=[s for s in mi.tree.body if not isinstance(s, (ast.FunctionDef, ast.ClassDef))]
            + [ast.Expr(value=d) for s in mi.tree.body if isinstance(s, (ast.FunctionDef, ast.ClassDef)) for d in s.decorator_list],
            decorator_list=[], lineno=1, col_offset=0,
        )
        fi = FuncInfo(mi, "<module>", pseudo, None)
        self._add_func(fi)

    def reachable(self, roots):
        seen = set()
        stack = list(roots)
        while stack:
            f = stack.pop()
            if f in seen or f not in self.edges:
                continue
            seen.add(f)
            stack.extend(self.edges[f])
        return seen

    def sccs(self, nodes=None):
        """Tarjan; returns the list of SCCs that contain a cycle."""
        nodes = set(nodes) if nodes is not None else set(self.edges)
        index = {}
        low = {}
        onstack = set()
        st = []
        out = []
        counter = itertools.count()

        def strong(v):
            work = [(v, iter(sorted(self.edges.get(v, ()))))]
            index[v] = low[v] = next(counter)
            st.append(v)
            onstack.add(v)
            while work:
                node, it = work[-1]
                advanced = False
                for w in it:
                    if w not in nodes:
                        continue
                    if w not in index:
                        index[w] = low[w] = next(counter)
                        st.append(w)
                        onstack.add(w)
                        work.append((w, iter(sorted(self.edges.get(w, ())))))
                        advanced = True
                        break
                    elif w in onstack:
                        low[node] = min(low[node], index[w])
                if advanced:
                    continue
                work.pop()
                if work:
                    parent = work[-1][0]
                    low[parent] = min(low[parent], low[node])
                if low[node] == index[node]:
                    comp = []
                    while True:
                        w = st.pop()
                        onstack.discard(w)
                        comp.append(w)
                        if w == node:
                            break
                    if len(comp) > 1 or node in self.edges.get(node, ()):
                        out.append(sorted(comp))

        for v in sorted(nodes):
            if v not in index:
                strong(v)
        return out


_PROGRAM_CACHE: dict[str, Program] = {}


def get_program(repo=None) -> Program:
    key = repo or REPO
    if key not in _PROGRAM_CACHE:
        _PROGRAM_CACHE[key] = Program(key)
    return _PROGRAM_CACHE[key]


def norm_src(node) -> str:
    """Normalised statement/expression text (stable under reformatting)."""
    return re.sub(r"\s+", " ", ast.unparse(node)).strip()
