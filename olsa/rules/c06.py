"""C06 - every name resolves to the same variable after lowering of scopes
(routing of user names through the namespaces, reader/writer agreement of the
decision lists, origin predicate of free variables, dict life cycle, version
guards, walrus value)."""
from __future__ import annotations

import ast
import itertools
import re

from ..core import AnalysisError, RuleResult
from ..model import version_test
from ..semwalk import events_of, iter_tnodes, upath
from ..vals import Cst, Fresh, PList, Rep, TNode, Transf, UNode, UPrim
from .common import kinds_label, norm_path, path_events, short_ctx
from .exprcopy import all_expr_paths

EXPLANATION = (
    "Typestate/routing analysis on the emitted templates (engine T): every user expression must "
    "reach the output rewritten by expr_transf in the namespace Python evaluates it in (C06-R1, "
    "statement classes and the generic expression copier per ASDL field); the expression dispatch "
    "must route scope-introducing kinds to a handler that records bound names (R2); the decision "
    "lists of get_assign/get_load_name, extracted per namespace class, must denote the same storage "
    "for every model of the symtable predicates (R3, exhaustive truth table); the predicate that "
    "accepts an enclosing function as birthplace of a free name must imply is_local, is asked of the "
    "symbol of the function whose sets are extended, and nonlocal_parameters is populated exactly "
    "for parameters (R4); nonlocal / "
    "class dicts are created before use and class-dict loads have a fallback (R5); attributes defined "
    "under a version guard are used only under it (R6); a rewritten walrus yields the stored value (R7); "
    "expr_transf hands every node to the driver (R8); open comprehensions are registered as a stack "
    "that get_load_name consults entirely (R9); the statement driver's namespace stack and "
    "generate_nsp pair every statement with the namespace of its scope (R10, R11)."
    ' R4 computes the condition under which a population site is reached from every way of getting there (if/elif arms, arms left through continue/break/return/raise, hoisted predicates put back) and evaluates it on all symbol models (incl. imported names); R5 also requires the class-dict fallback to be lazy; R9 judges on a timeline which parts of a comprehension are rewritten while its targets are registered (only the first iterable may be outside); R11 also requires every scope kind without a statement of its own (lambda, listcomp, setcomp, dictcomp, genexpr) to be passed over; R12 no converter-built name reaches the rewriter. R1 also: a list that an expression handler rebuilds element by element loses no element on any path (kw_defaults stays aligned with kwonlyargs). R3 also: the read a lambda body of a class makes (same namespace object, class-level state, unless the Lambda handler registers itself) of a class member that a nested scope reads as a global gets the plain name.'
)
ASSUMPTIONS = [
    "symtable classifies each concrete program as CPython's compiler does (not decided here)",
    "symtable predicate axioms of DESIGN Appendix D (Lib/symtable.py, Python/symtable.c)",
]

NO_EXPR_INSIDE = {"operator", "boolop", "unaryop", "cmpop", "expr_context"}


def _carries_expr(kinds):
    """Can a raw node of these kinds contain names/expressions with run-time meaning?"""
    for k in kinds:
        base = getattr(ast, k, None)
        if base is None:
            return True
        if issubclass(base, (ast.operator, ast.boolop, ast.unaryop, ast.cmpop, ast.expr_context)):
            continue
        if k in ("arg", "alias", "Constant"):
            continue  # no names and no sub-expressions inside
        return True
    return False


def _field_path(path):
    """Key part: path without the statement kind prefix; nested target patterns and
    the three slice bounds are folded (one finding per construct, not per shape)."""
    p = path.split(".", 1)[1] if "." in path else path
    p = re.sub(r"^targets\[\*\]", "target", p)
    p = re.sub(r"(\.elts\[\*\](\.value(?=\.(elts|slice|value)))?)+", "", p)
    p = re.sub(r"\.slice\.(lower|upper|step)$", ".slice", p)
    return p


def rule_r1(ctx):
    rr = RuleResult("C06-R1", "every user expression/target reaches the output through the namespace (raw -> rewritten)")
    rr.exhaustive = True
    rr.floor = 17
    T = ctx.tmpl
    for ci, kinds, entry in T.all_pending():
        rr.instances += 1
        for pr in entry.ok_paths():
            kind = kinds_label(pr.extra["node"].kinds)
            evs, w = path_events(pr)
            for e in evs:
                what = f"{kind}|{e.path}|{e.kind}"
                if e.kind == "raw":
                    if not _carries_expr(e.extra.get("kinds", ["expr"])):
                        continue
                    rr.fail(
                        f"C06-R1|{kind}|{_field_path(e.path)}|raw",
                        f"{ci.name} ({e.site or ci.module.rel}): user expression {e.path} is copied into the output without expr_transf (names inside it are not routed through the namespace) [context: {short_ctx(pr, 100)}]",
                        where=e.site, what=what,
                    )
                elif e.kind == "raw-target":
                    rr.fail(
                        f"C06-R1|{kind}|{_field_path(e.path)}|raw-target",
                        f"{ci.name}: user target {e.path} is emitted as a comprehension target instead of being stored through assign_auto/get_assign (invisible after the loop, not in the nonlocal/class dict) [context: {short_ctx(pr, 100)}]",
                        where=e.site, what=what,
                    )
                elif e.kind == "X":
                    tag = e.nsp
                    if tag != "self.nsp":
                        rr.fail(
                            f"C06-R1|{kind}|{_field_path(e.path)}|wrong-namespace",
                            f"{ci.name} ({e.site}): {e.path} is rewritten in namespace {tag}, Python evaluates it in the defining namespace (self.nsp)",
                            where=e.site, what=what,
                        )
                    else:
                        rr.ok(what, sample={"rule": "C06-R1", "statement": kind, "hole": e.path, "namespace": tag, "verdict": "rewritten"})
                elif e.kind in ("load-user", "bind-user"):
                    if e.kind == "load-user" and own_param_name(e.extra.get("prim")) and e.deferred >= 1:
                        first_body = min((x.pos for x in evs if x.kind in ("S", "X") and x.deferred >= 1), default=None)
                        if first_body is None or e.pos < first_body:
                            # the function reads one of its own parameters at entry, before any user
                            # code of the body: a parameter is a plain variable of the lambda there
                            rr.ok(what, sample={"rule": "C06-R1", "statement": kind, "hole": e.path, "verdict": "own parameter read at function entry"})
                            continue
                    rr.fail(
                        f"C06-R1|{kind}|{_field_path(e.path)}|{e.kind}",
                        f"{ci.name} ({e.site}): a plain Name on the user identifier {e.path} is built outside the namespace classes",
                        where=e.site, what=what,
                    )
                elif e.kind == "double-transf":
                    rr.fail(f"C06-R1|{kind}|double-transf", f"{ci.name} ({e.site}): expr_transf applied twice to {e.path}", where=e.site, what=what)
    # the generic copier, per (kind, field)
    n_copier = 0
    for kind, paths in all_expr_paths(ctx).items():
        for pr in paths:
            if "Function" not in pr.extra.get("nsp_cls", ""):
                continue
            if pr.outcome != "ok" or not isinstance(pr.result, TNode):
                continue
            if getattr(pr.result, "rebuilt_from", None) is None:
                continue
            n_copier += 1
            evs, w = events_of(pr.result)
            for e in evs:
                what = f"copier|{kind}|{e.path}"
                if e.kind == "raw" and _carries_expr(e.extra.get("kinds", ["expr"])):
                    rr.fail(
                        f"C06-R1|{kind}|{_field_path(e.path)}|raw",
                        f"generic expression copier ({pr.result.site}): field {e.path} is copied without rewriting (expressions inside it keep their raw names)",
                        where=pr.result.site, what=what,
                    )
                elif e.kind == "X":
                    rr.ok(what)
            # a list that the handler builds element by element keeps one element per element of the
            # source list: on a path where elements of the field were looked at and none was appended,
            # the rebuilt list is shorter than its siblings (kw_defaults against kwonlyargs, keys
            # against values, ops against comparators) or an operand has disappeared
            for n in iter_tnodes(pr.result):
                for fname, v in n.fields.items():
                    if not isinstance(v, PList):
                        continue
                    looked = [k for k in pr.assign if f".{fname}[*]" in k]
                    kept = [x for x in v.items if not isinstance(x, Rep) or x.items]
                    what = f"copier|{kind}|{n.kind}.{fname}|elements"
                    if looked and not kept:
                        rr.fail(
                            f"C06-R1|{kind}|{n.kind}.{fname}|elements-dropped",
                            f"expression handler of {kind} ({pr.result.site}): on the path [{short_ctx(pr, 100)}] the elements of `{fname}` are examined and none reaches the rebuilt `{n.kind}.{fname}`: "
                            f"the list no longer lines up with the lists it is paired with by position (a default attached to another parameter, a parameter that silently disappears from the signature)",
                            where=pr.result.site, what=what,
                        )
                    elif looked:
                        rr.ok(what)
    rr.instances += n_copier
    return rr


SCOPE_KINDS = ("Lambda", "ListComp", "SetComp", "DictComp", "GeneratorExp")


def rule_r2(ctx):
    rr = RuleResult("C06-R2", "scope-introducing expression kinds are routed to a handler that records the names they bind")
    rr.exhaustive = True
    rr.floor = 27
    for kind, paths in all_expr_paths(ctx).items():
        if kind in ("comprehension", "keyword"):
            continue
        rr.instances += 1
        for pr in paths:
            if pr.outcome == "raise":
                continue
            handler = pr.extra.get("handler", "?")
            what = f"dispatch|{kind}"
            if kind in SCOPE_KINDS:
                pushes = [e for e in pr.effects if e["kind"] in ("append", "add", "update") and "nsp" in str(e.get("target", ""))]
                if not pushes:
                    rr.fail(
                        f"C06-R2|{kind}|no-binding-record",
                        f"ExpressionTransformer.get_pending routes ast.{kind} to {handler}, which records no bound names on the namespace: a parameter/target that shadows a captured or class-level name is rewritten as if it were the outer variable",
                        what=what,
                    )
                else:
                    rr.ok(what, sample={"rule": "C06-R2", "kind": kind, "handler": handler, "records": pushes[0]["target"]})
            elif kind == "Name":
                evs, w = events_of(pr.result) if pr.outcome == "ok" else ([], None)
                loads = [e for e in evs if e.kind in ("load", "load-user", "bind-user")]
                if pr.outcome == "ok" and not any(e.kind == "load" for e in evs) and not _is_store_ctx(pr):
                    rr.fail(f"C06-R2|Name|not-through-namespace", f"{handler}.get_result does not load the name through get_load_name", what=what)
                else:
                    rr.ok(what)
            elif kind == "NamedExpr":
                evs, w = events_of(pr.result) if pr.outcome == "ok" else ([], None)
                if pr.outcome == "ok" and not any(e.kind == "store" for e in evs):
                    rr.fail(f"C06-R2|NamedExpr|not-through-namespace", f"{handler}.get_result does not store through get_assign", what=what)
                else:
                    rr.ok(what)
            else:
                rr.ok(what, nontrivial=False)
    return rr


def _is_store_ctx(pr):
    return any("Store" in k and v is True for k, v in pr.assign.items())


# ---------------------------------------------------------------------------
# R3 / R4: decision lists and symtable models

SCOPES = ("LOCAL", "CELL", "FREE", "GLOBAL_EXPLICIT", "GLOBAL_IMPLICIT")


def symbol_models():
    """All models of one symtable.Symbol allowed by the axioms of Appendix D."""
    out = []
    for scope in SCOPES:
        for param in (False, True):
            for assigned in (False, True):
                for nonlocal_ in (False, True):
                    for imported in (False, True):
                        if param and scope not in ("LOCAL", "CELL"):
                            continue
                        if nonlocal_ and scope != "FREE":
                            continue
                        # an import binds the name: the name is local unless declared global/nonlocal
                        if imported and not (scope in ("LOCAL", "CELL", "GLOBAL_EXPLICIT") or nonlocal_):
                            continue
                        # so does an assignment (function and class blocks)
                        if assigned and not (scope in ("LOCAL", "CELL", "GLOBAL_EXPLICIT") or nonlocal_):
                            continue
                        out.append({
                            "scope": scope, "is_parameter": param, "is_assigned": assigned,
                            "is_nonlocal": nonlocal_, "is_imported": imported, "exists": True,
                            "is_local": scope in ("LOCAL", "CELL"),
                            "is_free": scope == "FREE",
                            "is_global": scope.startswith("GLOBAL"),
                            "is_declared_global": scope == "GLOBAL_EXPLICIT",
                        })
    return out


SYMBOL_PREDS = ("is_declared_global", "is_global", "is_local", "is_free", "is_nonlocal", "is_parameter", "is_assigned", "is_imported")


def classify_key(key, comp_attrs=()):
    """Decision key of a namespace method -> abstract predicate name."""
    if re.search(r"^in:Name\.id:Namespace\.symt\.get_identifiers\(\)$", key):
        return ("sym", "exists")  # the models describe a symbol OF this scope's table
    for p in SYMBOL_PREDS:
        if f".{p}()" in key:
            return ("sym", p)
    if "outer_nonlocal_map" in key:
        return ("mem", "OUT")
    if "inner_nonlocal_names" in key:
        return ("mem", "INN")
    if any(f".{a}" in key for a in comp_attrs):
        return ("mem", "COMP")
    if "globals_used_in_comp" in key:
        return ("mem", "GUC")
    if key.startswith("host:version"):
        return ("host", key[5:])
    return ("other", key)


def storage_of(t, pr=None):
    """Classify a returned storage template: ('plain',) | ('globals',) | ('dict', owner) | ('classdict',) | ('?', text)."""
    from ..tmpl import show

    nodes = list(iter_tnodes(t))
    for n in nodes:
        if n.kind == "Name" and isinstance(n.fields.get("id"), Fresh):
            fr = n.fields["id"]
            owner = getattr(n, "owner", None)
            cname = (fr.const_name or "") + (fr.template or "")
            if "NONLOCAL" in cname.upper() or "nonlocal" in cname:
                return ("dict", owner[0] if owner else "?")
            if "CLASS" in cname.upper() and ("DICT" in cname.upper() or "nsp" in cname):
                return ("classdict",)
    for n in nodes:
        if n.kind == "Call" and isinstance(n.fields.get("func"), TNode) and n.fields["func"].kind == "Name":
            idv = n.fields["func"].fields.get("id")
            if isinstance(idv, Cst) and idv.value == "globals":
                return ("globals",)
    if isinstance(t, TNode) and t.kind in ("NamedExpr", "Name"):
        return ("plain",)
    return ("?", show(t)[:80])


def has_plain_fallback(t):
    """Does a dict-load template also contain a plain load of the same user name?"""
    for n in iter_tnodes(t):
        if n.kind == "Name" and isinstance(n.fields.get("id"), UPrim):
            return True
    return False


def plain_fallback_kind(t):
    """'lazy' when the plain load of the user name sits where it is evaluated only if needed (a branch
    of a conditional expression, a later operand of and/or), 'eager' when it is evaluated every time
    (an argument of a call such as DICT.get(name, <plain name>)), None when there is none."""
    found = []

    def walk(v, cond):
        if isinstance(v, TNode):
            if v.kind == "Name" and isinstance(v.fields.get("id"), UPrim):
                found.append("lazy" if cond else "eager")
                return
            if v.kind == "IfExp":
                walk(v.fields.get("test"), cond)
                walk(v.fields.get("body"), True)
                walk(v.fields.get("orelse"), True)
                return
            if v.kind == "BoolOp":
                vals = v.fields.get("values")
                for i, o in enumerate(vals.items if isinstance(vals, PList) else []):
                    walk(o, cond or i > 0)
                return
            if v.kind == "Lambda":
                walk(v.fields.get("body"), True)
                return
            for x in v.fields.values():
                walk(x, cond)
        elif isinstance(v, PList):
            for i in v.items:
                walk(i, cond)

    walk(t, False)
    if not found:
        return None
    return "eager" if "eager" in found else "lazy"


def _match(pr, assignment):
    for k, v in pr.assign.items():
        if k in assignment and assignment[k] != v:
            return False
    return True


def _reach_conditions(fi, match):
    """For every call `c` of function `fi` with match(c): the condition under which it is reached
    inside its innermost enclosing loop, as an ast expression (a disjunction over the ways control
    can get there: if/elif arms, and the arms that did NOT leave through continue/break/return/raise).
    Returns [(call, condition ast or None when unconditional, [tests on the way])]."""
    found = {}
    # predicates hoisted into single-assignment locals (`born_here = outer_symbol.is_local()`) are
    # put back into the tests that use them
    assigns = {}
    for n in ast.walk(fi.node):
        if isinstance(n, ast.Assign) and len(n.targets) == 1 and isinstance(n.targets[0], ast.Name):
            assigns.setdefault(n.targets[0].id, []).append(n.value)
    hoisted = {k: v[0] for k, v in assigns.items() if len(v) == 1 and _is_symbol_test(v[0])}

    class _Subst(ast.NodeTransformer):
        def visit_Name(self, node):
            if isinstance(node.ctx, ast.Load) and node.id in hoisted:
                return hoisted[node.id]
            return node

    def unhoist(t):
        if not hoisted or not any(isinstance(x, ast.Name) and x.id in hoisted for x in ast.walk(t)):
            return t
        import copy

        return _Subst().visit(copy.deepcopy(t))

    def conj(conds):
        conds = [(unhoist(t), pol) for t, pol in conds]
        # tests that do not ask the symbol table (isinstance of the namespace, ...) are left out:
        # they may hold or not for any symbol
        parts = [t if pol else ast.UnaryOp(op=ast.Not(), operand=t) for t, pol in conds if _is_symbol_test(t)]
        if not parts:
            return None
        return parts[0] if len(parts) == 1 else ast.BoolOp(op=ast.And(), values=parts)

    def walk(stmts, alts):
        """alts: the alternative condition lists under which the first statement is reached; returns
        the alternatives under which control falls off the end of the list."""
        for st in stmts:
            if not alts:
                return []
            if isinstance(st, (ast.Continue, ast.Break, ast.Return, ast.Raise)):
                return []
            if isinstance(st, ast.If):
                for c in ast.walk(st.test):
                    if match(c):
                        found.setdefault(id(c), (c, []))[1].extend(alts)
                t_alts = walk(st.body, [a + [(st.test, True)] for a in alts])
                f_alts = walk(st.orelse, [a + [(st.test, False)] for a in alts])
                if t_alts == [a + [(st.test, True)] for a in alts] and f_alts == [a + [(st.test, False)] for a in alts]:
                    pass  # both arms fall through unchanged: the test adds nothing afterwards
                else:
                    alts = t_alts + f_alts
                continue
            if isinstance(st, (ast.For, ast.While, ast.AsyncFor)):
                walk(st.body, [[]])
                walk(st.orelse, [[]])
                continue
            if isinstance(st, (ast.With, ast.Try, ast.AsyncWith)):
                for blk in ("body", "orelse", "finalbody"):
                    walk(getattr(st, blk, []) or [], alts)
                for h in getattr(st, "handlers", []):
                    walk(h.body, alts)
                continue
            if isinstance(st, (ast.FunctionDef, ast.AsyncFunctionDef, ast.ClassDef)):
                continue
            for c in ast.walk(st):
                if match(c):
                    found.setdefault(id(c), (c, []))[1].extend(alts)
        return alts

    walk(fi.node.body, [[]])
    out = []
    for c, alts in found.values():
        disj = [conj(a) for a in alts]
        tests = []
        for a in alts:
            for t, _pol in a:
                t = unhoist(t)
                if not any(ast.dump(t) == ast.dump(x) for x in tests):
                    tests.append(t)
        if any(d is None for d in disj) or not disj:
            cond = None
        else:
            cond = disj[0] if len(disj) == 1 else ast.BoolOp(op=ast.Or(), values=disj)
        out.append((c, cond, tests))
    return out


def _is_add_to(c, attrs):
    return (
        isinstance(c, ast.Call) and isinstance(c.func, ast.Attribute) and c.func.attr == "add"
        and isinstance(c.func.value, ast.Attribute) and c.func.value.attr in attrs and len(c.args) == 1
    )


def _population_predicates(prog):
    """Sites `X.inner_nonlocal_names.add(n)`: (class, function, pseudo If node carrying the condition
    under which the site is reached - every way of getting there, not only an enclosing `if`)."""
    out = []
    mi = prog.modules.get("oneliner.namespaces")
    if mi is None:
        raise AnalysisError("anchor module oneliner.namespaces vanished")
    for ci in mi.classes.values():
        for fi in ci.methods.values():
            for call, cond, tests in _reach_conditions(fi, lambda c: _is_add_to(c, ("inner_nonlocal_names",))):
                recv = call.func.value.value
                if isinstance(recv, ast.Name):
                    for n in ast.walk(fi.node):
                        if isinstance(n, ast.Assign) and isinstance(n.value, ast.Call) and any(isinstance(x, ast.Name) and x.id == recv.id for t in n.targets for x in ast.walk(t)):
                            callee = ast.unparse(n.value.func)
                            if not callee.endswith(("lookup", "reversed")):
                                raise AnalysisError(f"C06-R4: {fi.where()} line {call.lineno}: the function whose sets are extended (`{recv.id}`) is handed out by `{callee}(...)`: the condition under which it is chosen lies in that helper, which this rule does not follow")
                test = cond if cond is not None else ast.Constant(value=True)
                node = ast.If(test=test, body=[], orelse=[])
                node.lineno = call.lineno
                out.append((ci, fi, node))
    return out


def eval_symbol_pred(test, model):
    """Evaluate a condition over one symbol's predicates in a model; None if it mentions anything else."""
    if isinstance(test, ast.BoolOp):
        vals = [eval_symbol_pred(v, model) for v in test.values]
        if any(v is None for v in vals):
            return None
        return all(vals) if isinstance(test.op, ast.And) else any(vals)
    if isinstance(test, ast.UnaryOp) and isinstance(test.op, ast.Not):
        v = eval_symbol_pred(test.operand, model)
        return None if v is None else not v
    if isinstance(test, ast.Call) and isinstance(test.func, ast.Attribute) and test.func.attr in model and not test.args:
        return model[test.func.attr]
    if isinstance(test, ast.Constant) and isinstance(test.value, bool):
        return test.value
    return None


def rule_r4(ctx):
    rr = RuleResult("C06-R4", "the predicate accepting an enclosing function as birthplace of a free name implies is_local()")
    rr.exhaustive = True
    rr.floor = 2
    sites = _population_predicates(ctx.prog)
    models = symbol_models()
    for ci, fi, ifnode in sites:
        rr.instances += 1
        counter = None
        undecided = False
        for m in models:
            v = eval_symbol_pred(ifnode.test, m)
            if v is None:
                undecided = True
                break
            if v and not m["is_local"]:
                counter = m
                break
        what = f"{ci.name}|birthplace"
        if undecided:
            raise AnalysisError(f"C06-R4: birthplace predicate at {fi.where()} line {ifnode.lineno} is not a combination of symtable predicates: {ast.unparse(ifnode.test)[:80]}")
        if counter:
            rr.fail(
                f"C06-R4|{ci.name}|birthplace-not-local",
                f"{fi.where()} line {ifnode.lineno}: `{ast.unparse(ifnode.test)}` accepts a scope where the name is not local (counter-model: scope {counter['scope']}, assigned={counter['is_assigned']}): a function that only re-declares the name nonlocal/global and assigns it is taken as its birthplace",
                where=fi.where(), what=what,
            )
        else:
            rr.ok(what, sample={"rule": "C06-R4", "site": fi.where(), "predicate": ast.unparse(ifnode.test), "models": len(models), "verdict": "implies is_local"})
    # the predicates are asked of the symbol of the ENCLOSING function whose sets are extended, and a
    # name is recorded as a nonlocal parameter exactly when that symbol is a parameter
    n_param_sites = 0
    init_reach = {}
    for leaf in ctx.tmpl.namespace_leaves()[1]:
        init = leaf.find_method("__init__")
        if init is not None and init.cls is leaf:
            init_reach[leaf.name] = ctx.cg.reachable([init.fq])
    for ci, fi, call, owner, name, tests in _set_add_sites(ctx.prog, ("inner_nonlocal_names", "nonlocal_parameters")):
        attr = call.func.value.attr
        what = f"{ci.name}|{attr}|receiver"
        rr.instances += 1
        if attr == "nonlocal_parameters":
            # a site shared by several namespace classes (a pulled-up loop) stands for each of them
            n_param_sites += max(1, sum(1 for fq in init_reach if fi.fq in init_reach[fq]))
        bad = None
        for t in tests:
            for c in ast.walk(t):
                if isinstance(c, ast.Call) and isinstance(c.func, ast.Attribute) and c.func.attr in models[0] and not c.args:
                    recv = _resolve_local(fi, c.func.value)
                    want = f"{owner}.symt.lookup({name})"
                    if recv != want:
                        bad = bad or (c, recv, want)
        if bad:
            c, recv, want = bad
            rr.fail(
                f"C06-R4|{ci.name}|{attr}|wrong-symbol",
                f"{fi.where()} line {c.lineno}: `{ast.unparse(c)}` guards `{ast.unparse(call)}` but asks the symbol `{recv}`; the sets of `{owner}` describe ITS variable `{name}`, i.e. `{want}` (the symbol of the inner scope is free there: never a parameter, never local)",
                where=fi.where(), what=what,
            )
            continue
        rr.ok(what)
        if attr == "nonlocal_parameters":
            what = f"{ci.name}|{attr}|predicate"
            test = getattr(call, "_reach_cond", None)
            if test is None:
                test = ast.BoolOp(op=ast.And(), values=list(tests)) if len(tests) > 1 else tests[0]
            wrong = None
            for m in models:
                v = eval_symbol_pred(test, m)
                if v is None:
                    raise AnalysisError(f"C06-R4: guard of {ast.unparse(call)} at {fi.where()} is not a combination of symtable predicates")
                if m["is_local"] and v != m["is_parameter"]:
                    wrong = wrong or (m, v)
            if wrong:
                m, v = wrong
                rr.fail(
                    f"C06-R4|{ci.name}|{attr}|predicate",
                    f"{fi.where()} line {call.lineno}: a local variable with is_parameter={m['is_parameter']} (scope {m['scope']}) is {'recorded' if v else 'not recorded'} as nonlocal parameter: the function-entry dict {{p: p}} must name exactly the parameters captured by inner scopes",
                    where=fi.where(), what=what,
                )
            else:
                rr.ok(what, sample={"rule": "C06-R4", "site": fi.where(), "guard": ast.unparse(test), "verdict": "equivalent to is_parameter() of the enclosing function's symbol"})
    if n_param_sites < 2:
        raise AnalysisError(f"C06-R4: only {n_param_sites} population sites of nonlocal_parameters found (2 confirmed by hand)")
    # every free / nonlocal name of the scope is linked: the loop over the names is never left early
    mi = ctx.prog.modules["oneliner.namespaces"]
    n_loops = 0
    SRC = ("get_frees", "get_nonlocals", "get_symbols", "get_identifiers")

    def _adds(lp):
        return any(isinstance(c, ast.Call) and isinstance(c.func, ast.Attribute) and c.func.attr == "add" and isinstance(c.func.value, ast.Attribute) and c.func.value.attr == "inner_nonlocal_names" for c in ast.walk(lp))

    name_loops = []  # (class, function, loop over the symbol table's names, loop that links each name)
    for ci in mi.classes.values():
        for fi in ci.methods.values():
            for lp in ast.walk(fi.node):
                if not isinstance(lp, ast.For) or not _adds(lp):
                    continue
                it_txt = ast.unparse(lp.iter)
                if isinstance(lp.iter, ast.Name):
                    # the names were collected into a local list first
                    defs = [n.value for n in ast.walk(fi.node) if isinstance(n, ast.Assign) and len(n.targets) == 1 and isinstance(n.targets[0], ast.Name) and n.targets[0].id == lp.iter.id]
                    if len(defs) == 1:
                        it_txt = ast.unparse(defs[0])
                if any(x in it_txt for x in SRC):
                    name_loops.append((ci, fi, lp, lp))
                elif isinstance(lp.iter, ast.Call) and isinstance(lp.iter.func, ast.Attribute) and isinstance(lp.iter.func.value, ast.Name) and lp.iter.func.value.id == "self" and not lp.iter.args:
                    # the names come from a generator hook that each namespace class overrides
                    for cj in mi.classes.values():
                        gi = cj.methods.get(lp.iter.func.attr)
                        if gi is None or not any(isinstance(y, (ast.Yield, ast.YieldFrom)) for y in ast.walk(gi.node)):
                            continue
                        if ci not in cj.mro():
                            continue
                        for glp in ast.walk(gi.node):
                            if isinstance(glp, ast.For) and any(x in ast.unparse(glp.iter) for x in SRC) and any(isinstance(y, ast.Yield) for y in ast.walk(glp)):
                                name_loops.append((cj, gi, glp, lp))
    if True:
        if True:
            for ci, fi, lp, link_lp in name_loops:
                it_txt = ast.unparse(lp.iter)
                n_loops += 1
                rr.instances += 1
                what = f"{ci.name}|names-loop|complete"

                def own_exits(stmts):
                    out = []
                    for st in stmts:
                        if isinstance(st, (ast.Break, ast.Return)):
                            out.append(st)
                        elif isinstance(st, (ast.For, ast.While, ast.AsyncFor)):
                            out += [x for x in own_exits(st.body) + own_exits(st.orelse) if isinstance(x, ast.Return)]
                            out += own_exits(st.orelse) if False else []
                        elif isinstance(st, (ast.FunctionDef, ast.AsyncFunctionDef, ast.ClassDef, ast.Lambda)):
                            continue
                        else:
                            for blk in ("body", "orelse", "finalbody"):
                                out += own_exits(getattr(st, blk, []) or [])
                            for h in getattr(st, "handlers", []) or []:
                                out += own_exits(h.body)
                    return out

                # ... and no name is passed over, except the implicit __class__ of methods
                def own_continues(stmts, guards):
                    out = []
                    for st in stmts:
                        if isinstance(st, ast.Continue):
                            out.append((st, list(guards)))
                        elif isinstance(st, ast.If):
                            out += own_continues(st.body, guards + [st.test])
                            out += own_continues(st.orelse, guards + [st.test])
                        elif isinstance(st, (ast.With, ast.Try)):
                            for blk in ("body", "orelse", "finalbody"):
                                out += own_continues(getattr(st, blk, []) or [], guards)
                    return out

                for cont, guards in own_continues(lp.body, []):
                    rr.instances += 1
                    g_txt = " and ".join(ast.unparse(g)[:60] for g in guards)
                    conj = ast.BoolOp(op=ast.And(), values=list(guards)) if len(guards) > 1 else (guards[0] if guards else None)
                    only_others = conj is not None and all(
                        (eval_symbol_pred(conj, m) is False) or (eval_symbol_pred(conj, m) is True and not (m["is_free"] or m["is_nonlocal"]))
                        for m in models
                    )
                    if any(isinstance(k, ast.Constant) and k.value == "__class__" for g in guards for k in ast.walk(g)):
                        rr.ok(f"{ci.name}|names-loop|skip@{cont.lineno}", sample={"rule": "C06-R4", "skip": g_txt, "verdict": "only the implicit __class__"})
                    elif only_others:
                        rr.ok(f"{ci.name}|names-loop|skip@{cont.lineno}", sample={"rule": "C06-R4", "skip": g_txt, "verdict": "skips only symbols that are neither free nor nonlocal (all models)"})
                    else:
                        rr.fail(
                            f"C06-R4|{ci.name}|names-loop|name-skipped",
                            f"{fi.where()} line {cont.lineno}: a free / nonlocal name is passed over when `{g_txt}`: it is not recorded in the owner's inner_nonlocal_names, so the owner keeps it as a plain variable while a sibling scope reads / writes the shared dict, or the other way round (a name that is free here only because a lambda or comprehension inside this function uses it has no namespace of its own to resolve it)",
                            where=fi.where(), what=f"{ci.name}|names-loop|skip@{cont.lineno}",
                        )
                # the implicit `__class__` (PEP 3135) is free in EVERY scope inside a class that mentions
                # `super` or `__class__` - methods, functions nested in methods, generator expressions,
                # classes nested in methods - and it is local in no function (the cell belongs to the class,
                # which the walk skips): it has to be passed over unconditionally, or the walk over the
                # enclosing namespaces runs into the global namespace (AssertionError)
                rr.instances += 1
                unconditional = False
                for cont, guards in own_continues(lp.body, []):
                    mentions = [g for g in guards if any(isinstance(k, ast.Constant) and k.value == "__class__" for k in ast.walk(g))]
                    if mentions and all(isinstance(g, ast.Compare) and len(g.ops) == 1 and isinstance(g.ops[0], (ast.Eq, ast.In)) for g in guards):
                        unconditional = True
                what_c = f"{ci.name}|names-loop|class-cell"
                if unconditional:
                    rr.ok(what_c, sample={"rule": "C06-R4", "loop": f"{ci.name}.{fi.name}", "verdict": "__class__ is skipped in every scope"})
                else:
                    rr.fail(
                        f"C06-R4|{ci.name}|names-loop|class-cell-not-skipped",
                        f"{fi.where()}: the loop that links free names to their owner does not pass over `__class__` unconditionally (only under an extra condition, or not at all). A function nested in a method, a generator expression in a method or a class nested in a method that mentions `super`/`__class__` has it as a free name too; no enclosing FUNCTION owns it, so the search reaches the global namespace: `list(super(B, self).m() for _ in r)` in a method stops the conversion with AssertionError",
                        where=fi.where(), what=what_c,
                    )
                exits = own_exits(lp.body) + (own_exits(link_lp.body) if link_lp is not lp else [])
                if exits:
                    e = exits[0]
                    rr.fail(
                        f"C06-R4|{ci.name}|names-loop|left-early",
                        f"{fi.where()} line {e.lineno}: `{type(e).__name__.lower()}` leaves the loop over `{it_txt[:60]}`: the free / nonlocal names that come after the current one are never linked to the function that owns them (a method that calls zero-argument super() BEFORE it first mentions a variable of an enclosing function reads / writes a plain name: NameError or UnboundLocalError)",
                        where=fi.where(), what=what,
                    )
                else:
                    rr.ok(what, sample={"rule": "C06-R4", "loop": f"{ci.name}.{fi.name}: for ... in {it_txt[:50]}", "verdict": "no break/return at the level of the names loop"})
    if n_loops < 2:
        raise AnalysisError(f"C06-R4: only {n_loops} loops over the free names found (2 confirmed by hand)")
    return rr


def _set_add_sites(prog, attrs):
    """Calls `<owner>.<attr>.add(<name>)` in oneliner.namespaces with the symbol-table tests on the
    ways that lead to them inside the innermost enclosing loop (hoisted predicates put back)."""
    mi = prog.modules.get("oneliner.namespaces")
    out = []
    for ci in mi.classes.values():
        for fi in ci.methods.values():
            for call, _cond, tests in _reach_conditions(fi, lambda c: _is_add_to(c, attrs)):
                sym_tests = [t for t in tests if _is_symbol_test(t)]
                call._reach_cond = _cond  # the polarised condition (arms left through continue are negated)
                out.append((ci, fi, call, ast.unparse(call.func.value.value), ast.unparse(call.args[0]), sym_tests))
    return [x for x in out if x[5]]


def _is_symbol_test(t):
    return any(isinstance(c, ast.Call) and isinstance(c.func, ast.Attribute) and c.func.attr.startswith(("is_", "get_")) for c in ast.walk(t))


def _resolve_local(fi, expr, depth=0):
    """Text of `expr` with single-assignment local names replaced by their definitions."""
    if isinstance(expr, ast.Name) and depth < 4:
        defs = [
            st.value for st in ast.walk(fi.node)
            if isinstance(st, ast.Assign) and len(st.targets) == 1 and isinstance(st.targets[0], ast.Name) and st.targets[0].id == expr.id
        ]
        params = {a.arg for a in fi.node.args.posonlyargs + fi.node.args.args + fi.node.args.kwonlyargs}
        loops = [n for n in ast.walk(fi.node) if isinstance(n, (ast.For, ast.comprehension)) and any(isinstance(x, ast.Name) and x.id == expr.id for x in ast.walk(n.target))]
        if len(defs) == 1 and expr.id not in params and not loops and any(isinstance(x, (ast.Call, ast.Attribute)) for x in ast.walk(defs[0])):
            return _resolve_local(fi, defs[0], depth + 1)
        return expr.id
    if isinstance(expr, ast.Attribute):
        return f"{_resolve_local(fi, expr.value, depth + 1)}.{expr.attr}"
    if isinstance(expr, ast.Call):
        args = ", ".join(_resolve_local(fi, a, depth + 1) for a in expr.args)
        return f"{_resolve_local(fi, expr.func, depth + 1)}({args})"
    return ast.unparse(expr)


def _pop_implies_local(ctx):
    models = symbol_models()
    for ci, fi, ifnode in _population_predicates(ctx.prog):
        for m in models:
            v = eval_symbol_pred(ifnode.test, m)
            if v is None or (v and not m["is_local"]):
                return False, ifnode
    return True, None


def rule_r3(ctx):
    rr = RuleResult("C06-R3", "get_assign and get_load_name of each namespace class denote the same storage for every model of the predicates")
    rr.exhaustive = True
    rr.floor = 3
    T = ctx.tmpl
    root, leaves, glob = T.namespace_leaves()
    models = symbol_models()
    pop_local, pop_if = _pop_implies_local(ctx)
    # (when the comprehension wrapper cannot be analysed, membership in its registry would be taken for
    # an unknown predicate and accuse every load: no verdict instead)
    comp_attrs = [a for a, (o, c) in _comp_registry(ctx).items() if o]
    for ci in leaves:
        rr.instances += 1
        st = T.namespace_method(ci, "get_assign")
        ld = T.namespace_method(ci, "get_load_name")
        keys = []
        for e in (st, ld):
            for pr in e.paths:
                for k in pr.assign:
                    if k not in keys:
                        keys.append(k)
        classes = {k: classify_key(k, comp_attrs) for k in keys}
        # a test the oracle has no axiom for (e.g. hasattr(builtins, name)) is a free boolean: it may
        # be true or false for any symbol
        # questions about the ENCLOSING namespaces (the chain stack[-1], .outer_nsp, ...): they answer
        # the oracle fact SHADOW = "some enclosing function binds a variable of the same name"
        outer_keys = [k for k in classes if re.search(r"stack\[-1\]", k)]
        for k in outer_keys:
            classes[k] = ("outer", k)
        free = {k: "P:" + re.sub(r"[^A-Za-z_]+", "-", k.split(":", 1)[-1])[:40].strip("-") for k, c in classes.items() if c[0] == "other"}
        for k, nm in free.items():
            classes[k] = ("host", nm)
            rr.note(f"{ci.name}: `{k}` is treated as a free predicate")
        mem = sorted({c[1] for c in classes.values() if c[0] == "mem"} | ({"SHADOW"} if ci is not glob else set()))
        hosts = sorted({c[1] for c in classes.values() if c[0] == "host"})
        first_level = min((len(k) for k in outer_keys if k.startswith("isnone:")), default=None)
        failing = {}
        n_models = 0
        for model in models:
            for mem_vals in itertools.product((False, True), repeat=len(mem)):
                mv = dict(zip(mem, mem_vals))
                # constraints from the population sites
                if mv.get("OUT") and not model["is_free"]:
                    continue  # keys of outer_nonlocal_map come from get_frees()/get_nonlocals() of this scope
                if mv.get("INN"):
                    if pop_local and not model["is_local"]:
                        continue
                    if not pop_local:
                        # the population predicate itself (evaluated on this scope's symbol)
                        pv = eval_symbol_pred(pop_if.test, model)
                        if pv is False:
                            continue
                if mv.get("COMP"):
                    continue  # comprehension targets are load-only names of an inner scope
                if mv.get("SHADOW") and model["scope"] != "GLOBAL_EXPLICIT":
                    continue  # only a declared-global name bypasses the enclosing functions
                for host_vals in itertools.product((False, True), repeat=len(hosts)):
                    hv = dict(zip(hosts, host_vals))
                    assignment = {}
                    for k, c in classes.items():
                        if c[0] == "sym":
                            assignment[k] = model[c[1]]
                        elif c[0] == "mem":
                            assignment[k] = mv[c[1]]
                        elif c[0] == "host":
                            assignment[k] = hv[c[1]]
                        elif c[0] == "outer":
                            # the first link of the chain decides: it is a function that binds the
                            # name (SHADOW), or the chain ends there (no SHADOW)
                            lvl1 = k.count(".outer_nsp") == 0
                            if mv.get("SHADOW"):
                                if lvl1:
                                    assignment[k] = not k.startswith("isnone:")
                            elif k.startswith("isnone:") and first_level is not None and len(k) == first_level:
                                assignment[k] = True
                    sp = [p for p in st.paths if _match(p, assignment)]
                    lp = [p for p in ld.paths if _match(p, assignment)]
                    if len(sp) != 1 or len(lp) != 1:
                        raise AnalysisError(f"C06-R3: {ci.name}: decision list does not determine one outcome ({len(sp)} stores, {len(lp)} loads)")
                    n_models += 1
                    s_kind = storage_of(sp[0].result) if sp[0].outcome == "ok" else ("raise",)
                    l_kind = storage_of(lp[0].result) if lp[0].outcome == "ok" else ("raise",)
                    what = f"{ci.name}|{model['scope']}|{sorted(k for k, v in mv.items() if v)}"
                    # a name that is global here can only be *stored* when declared global;
                    # a free name is stored only when declared nonlocal: skip impossible stores
                    compatible = (
                        s_kind == l_kind
                        # a bare name reaches the module global only if no enclosing function binds the
                        # same name (the converted scopes are lambdas nested in those functions' lambdas)
                        or ({s_kind[0], l_kind[0]} == {"plain", "globals"} and model["is_global"] and not mv.get("SHADOW"))
                        or (model["scope"] == "GLOBAL_IMPLICIT" and True and s_kind[0] in ("plain", "classdict") and l_kind[0] == "plain" and ci is not glob and False)
                    )
                    # an implicit global is never assigned in this scope (it would be local): no store to compare
                    if model["scope"] == "GLOBAL_IMPLICIT" and not model["is_assigned"]:
                        compatible = True
                    if model["scope"] == "FREE" and not model["is_nonlocal"] and not model["is_assigned"] and False:
                        compatible = True
                    if compatible:
                        rr.ok(what)
                    else:
                        cause = frozenset([k for k, v in mv.items() if v] + [k for k, v in hv.items() if v and k.startswith("P:")])
                        failing.setdefault((s_kind[0], l_kind[0]), []).append((cause, model, dict(mv), dict(hv), s_kind, l_kind))
        # one finding per (storage pair, minimal cause): a second way to reach the same pair is a
        # different defect and gets a different key
        for (sk, lk), fails in failing.items():
            causes = {c for c, *_ in fails}
            minimal = [c for c in causes if not any(o < c for o in causes)]
            for c in sorted(minimal, key=sorted):
                cause, model, mv, hv, s_kind, l_kind = next(f for f in fails if f[0] == c)
                desc_s = "/".join(map(str, s_kind))
                desc_l = "/".join(map(str, l_kind))
                mems = ",".join(k for k, v in mv.items() if v) or "-"
                rr.fail(
                    f"C06-R3|{ci.name}|store:{sk}|load:{lk}|{'+'.join(sorted(c)) or '-'}",
                    f"{ci.name}: for a name with symtable scope {model['scope']} (member of: {mems}; {', '.join(f'{k}={v}' for k, v in hv.items())}) get_assign stores to {desc_s} but get_load_name reads {desc_l}",
                    where=ci.module.rel, what=f"{ci.name}|{sk}|{lk}|{sorted(c)}",
                )
        rr.note(f"{ci.name}: {n_models} models of the predicates compared")
        if any(storage_of(p.result) == ("classdict",) for p in st.paths if p.outcome == "ok"):
            _lambda_reader(ctx, rr, ci, classes, ld, comp_attrs, models, first_level)
    return rr


def _lambda_reader(ctx, rr, ci, classes, ld, comp_attrs, models, first_level):
    """A lambda written in a class body does not see the members of the class (a class block is not an
    enclosing scope): a name that the class binds and that the lambda reads denotes the global there.
    The body of a lambda is rewritten by the same transformer with the same namespace object, so the
    question put to get_load_name is the one a class-level read puts, in the state a class-level read
    finds, unless the handler of Lambda registers something: the answer for a class member that a
    nested scope reads as a global must be the plain name."""
    from .exprcopy import all_expr_paths

    paths = [p for p in all_expr_paths(ctx).get("Lambda", []) if p.extra.get("nsp_cls") == ci.name and p.outcome == "ok"]
    if not paths:
        rr.note(f"{ci.name}: no lambda is accepted in this namespace: the lambda reader is not examined")
        return
    if any(e.get("attr") in comp_attrs and e.get("kind") != "set" for p in paths for e in p.effects):
        rr.note(f"{ci.name}: the handler of Lambda registers itself with the namespace: the lambda reader is not examined")
        return
    hosts = sorted({c[1] for c in classes.values() if c[0] == "host"})
    for model in models:
        if not (model["scope"] == "LOCAL" and model["is_assigned"] and not model["is_parameter"] and not model["is_imported"]):
            continue
        bad = None
        for host_vals in itertools.product((False, True), repeat=len(hosts)):
            hv = dict(zip(hosts, host_vals))
            assignment = {}
            for k, c in classes.items():
                if c[0] == "sym":
                    assignment[k] = model[c[1]]
                elif c[0] == "mem":
                    assignment[k] = c[1] == "GUC"
                elif c[0] == "host":
                    assignment[k] = hv[c[1]]
                elif c[0] == "outer" and k.startswith("isnone:") and first_level is not None and len(k) == first_level:
                    assignment[k] = True
            lp = [p for p in ld.paths if _match(p, assignment)]
            if len(lp) != 1:
                raise AnalysisError(f"C06-R3: {ci.name}: decision list does not determine one outcome for the read in a lambda ({len(lp)} loads)")
            l_kind = storage_of(lp[0].result) if lp[0].outcome == "ok" else ("raise",)
            if l_kind[0] not in ("plain", "globals"):
                bad = (l_kind, hv)
                break
        what = f"{ci.name}|lambda-body-read"
        if bad is None:
            rr.ok(what)
        else:
            rr.fail(
                f"C06-R3|{ci.name}|lambda-body-read|load:{bad[0][0]}",
                f"{ci.name}: a lambda in a class body that reads a global whose name the class also binds is given {'/'.join(map(str, bad[0]))} by get_load_name "
                f"(the body of a lambda is rewritten with the class namespace in its class-level state; membership in the set of names read as globals by nested scopes is the only thing that tells the two readers apart): "
                f"`x = 'g'\\nclass A:\\n x = 'm'\\n f = lambda self: x` returns the member instead of the global",
                where=ci.module.rel, what=what,
            )


_PARAM_FIELDS = ("posonlyargs", "args", "vararg", "kwonlyargs", "kwarg")


def own_param_name(u):
    """For the identifier of one of the template's own parameters (<root>.args.<kind>[...].arg): the kind."""
    from ..vals import UNode, UPrim

    if not isinstance(u, UPrim) or u.field != "arg":
        return None
    a = u.parent
    if not isinstance(a, UNode) or a.field not in _PARAM_FIELDS:
        return None
    args = a.parent
    if not isinstance(args, UNode) or args.field != "args" or args.parent is None or args.parent.parent is not None:
        return None
    return a.field


def _param_seed_sources(ks, vs):
    """Kinds of parameters seeded by a Dict whose every pair is Constant(p): Name(p) on the same own
    parameter p; None when the Dict is something else."""
    def flat(pl):
        out = []
        for i in pl.items:
            if isinstance(i, Rep):
                out.extend(i.items)
            else:
                out.append(i)
        return out

    fk, fv = flat(ks), flat(vs)
    if len(fk) != len(fv):
        return None
    srcs = set()
    for kk, vv in zip(fk, fv):
        if not (isinstance(kk, TNode) and kk.kind == "Constant" and isinstance(vv, TNode) and vv.kind == "Name"):
            return None
        u = kk.fields.get("value")
        if u is not vv.fields.get("id"):
            return None
        src = own_param_name(u)
        if src is None:
            return None
        srcs.add(src)
    return srcs


def rule_r5(ctx):
    rr = RuleResult("C06-R5", "nonlocal/class dicts are created before any use, seeded with the nonlocal parameters; class-dict loads fall back to the plain name")
    rr.floor = 3
    T = ctx.tmpl
    # (a) function template
    fent = T.pending_by_kind("FunctionDef")
    rr.instances += 1
    form_b = False
    n_form_b_full = 0
    for pr in fent.ok_paths():
        evs, w = path_events(pr)
        need = any("inner_nonlocal_names" in k and v is True for k, v in pr.assign.items())
        dict_binds = [e for e in evs if e.kind == "bind-fresh" and "NONLOCAL" in (e.path or "").upper()]
        body = [e for e in evs if e.kind == "S" and e.path.startswith("FunctionDef.body")]
        what = f"FunctionDef|nonlocal-dict|need={need}"
        if need:
            if not dict_binds or not body or not all(b.deferred >= 1 for b in dict_binds) or dict_binds[0].pos > body[0].pos:
                rr.fail("C06-R5|FunctionDef|nonlocal-dict|not-before-body", f"PendingFunctionDef: the nonlocal dict is not created at function entry before the lowered body [context: {short_ctx(pr, 100)}]", what=what)
            else:
                # seeded with exactly the nonlocal parameters: Dict(keys=Rep(Constant(p)), values=Rep(Name(p))),
                # or with the function's own parameters of all five kinds filtered by membership
                ok = False
                why = "no Dict of {name: name} pairs"
                for t in iter_tnodes(pr.result):
                    if t.kind == "Dict":
                        ks, vs = t.fields.get("keys"), t.fields.get("values")
                        if isinstance(ks, PList) and isinstance(vs, PList) and len(ks.items) == 1 and len(vs.items) == 1 and isinstance(ks.items[0], Rep) and isinstance(vs.items[0], Rep):
                            k0, v0 = ks.items[0], vs.items[0]
                            if "nonlocal_parameters" in k0.over and k0.over == v0.over and len(k0.items) == 1 and len(v0.items) == 1:
                                kk, vv = k0.items[0], v0.items[0]
                                if isinstance(kk, TNode) and kk.kind == "Constant" and isinstance(vv, TNode) and vv.kind == "Name" and kk.fields.get("value") is vv.fields.get("id"):
                                    ok = True
                        if not ok and isinstance(ks, PList) and isinstance(vs, PList):
                            srcs = _param_seed_sources(ks, vs)
                            if srcs is None:
                                continue
                            ins = [v for k, v in pr.assign.items() if k.startswith("in:") and "nonlocal_parameters" in k]
                            if not srcs and not ins:
                                continue  # some other empty dict
                            form_b = True
                            if not ins or not all(v is True for v in ins):
                                ok = True  # some parameters are not nonlocal on this path: nothing to require
                                continue
                            want = {"posonlyargs", "args", "kwonlyargs"}
                            for opt in ("vararg", "kwarg"):
                                if any(k.startswith("isnone:") and k.endswith("." + opt) and v is False for k, v in pr.assign.items()):
                                    want.add(opt)
                            if want <= srcs:
                                ok = True
                                n_form_b_full += 1
                            else:
                                why = f"parameters of kind {sorted(want - srcs)} are never put into the dict although they may be nonlocal parameters"
                if ok:
                    rr.ok(what, sample={"rule": "C06-R5", "template": "FunctionDef", "verdict": "dict created at entry, seeded {p: p for p in nonlocal_parameters}"})
                else:
                    rr.fail("C06-R5|FunctionDef|nonlocal-dict|seed", f"PendingFunctionDef: the nonlocal dict is not seeded with {{name: name}} for exactly the nonlocal parameters ({why})", what=what)
        else:
            rr.ok(what, nontrivial=False)
    if form_b and not n_form_b_full:
        rr.fail("C06-R5|FunctionDef|nonlocal-dict|seed", "PendingFunctionDef: no path seeds the nonlocal dict with the parameters of every kind", what="FunctionDef|nonlocal-dict|coverage")
    # (b) class template
    cent = T.pending_by_kind("ClassDef")
    rr.instances += 1
    for pr in cent.ok_paths():
        evs, w = path_events(pr)
        binds = [e for e in evs if e.kind == "bind-fresh" and "CLASS_DICT" in (e.path or "").upper()]
        body = [e for e in evs if e.kind == "S" and e.path.startswith("ClassDef.body")]
        what = "ClassDef|class-dict"
        if not binds or not body or binds[0].pos > body[0].pos:
            rr.fail("C06-R5|ClassDef|class-dict|not-before-body", "PendingClassDef: the class member dict is not created before the lowered class body", what=what)
        else:
            rr.ok(what)
    # (c) class-dict load has a fallback (class scope is LOAD_NAME: locals, globals, builtins)
    root, leaves, glob = T.namespace_leaves()
    for ci in leaves:
        ld = T.namespace_method(ci, "get_load_name")
        for pr in ld.ok_paths():
            if storage_of(pr.result) == ("classdict",):
                rr.instances += 1
                what = f"{ci.name}|classdict-load"
                if has_plain_fallback(pr.result) and plain_fallback_kind(pr.result) == "eager":
                    rr.fail(
                        f"C06-R5|{ci.name}|classdict-load|eager-fallback",
                        f"{ci.name}.get_load_name: the fallback to the plain name is evaluated on EVERY read, also when the class body has bound the member (an argument of a call such as `DICT.get(name, <plain name>)`): when no global of that name exists (yet) the read raises NameError although the member is there; the fallback has to be lazy (`DICT[name] if name in DICT else <plain name>`)",
                        where=ci.module.rel, what=what,
                    )
                elif has_plain_fallback(pr.result):
                    rr.ok(what)
                else:
                    rr.fail(
                        f"C06-R5|{ci.name}|classdict-load|no-fallback",
                        f"{ci.name}.get_load_name: a class-level name is read as DICT[name] with no fallback to the plain name; Python's class scope falls back to globals/builtins when the name is not (yet) bound in the class body",
                        where=ci.module.rel, what=what,
                    )
    return rr


# ---------------------------------------------------------------------------
# R6: version-guarded definitions


def _guard_fn(prog, mi, test):
    vt = version_test(prog, mi, test)
    if vt is None or vt[1] is None:
        return None
    op, tup = vt
    return lambda v: {"<": v < tup, "<=": v <= tup, ">": v > tup, ">=": v >= tup, "==": v[: len(tup)] == tup, "!=": v[: len(tup)] != tup}[op]


VERSIONS = [(3, m) for m in range(8, 16)]


def _enclosing_guards(prog, mi, root):
    """Map id(node) -> list of (guardfn, polarity) of the version tests that dominate the node."""
    out = {}

    def visit(n, guards):
        out[id(n)] = guards
        if isinstance(n, ast.If):
            g = _guard_fn(prog, mi, n.test)
            visit(n.test, guards)
            for c in n.body:
                visit(c, guards + ([(g, True)] if g else []))
            for c in n.orelse:
                visit(c, guards + ([(g, False)] if g else []))
            return
        if isinstance(n, ast.BoolOp) and isinstance(n.op, ast.And):
            gs = list(guards)
            for v in n.values:
                visit(v, gs)
                g = _guard_fn(prog, mi, v)
                if g:
                    gs = gs + [(g, True)]
            return
        if isinstance(n, ast.IfExp):
            g = _guard_fn(prog, mi, n.test)
            visit(n.test, guards)
            visit(n.body, guards + ([(g, True)] if g else []))
            visit(n.orelse, guards + ([(g, False)] if g else []))
            return
        for c in ast.iter_child_nodes(n):
            visit(c, guards)

    visit(root, [])
    return out


def _holds(guards, v):
    return all(g(v) == pol for g, pol in guards)


def rule_r6(ctx):
    rr = RuleResult("C06-R6", "attributes/functions defined only under a sys.version_info guard are used only under a guard that implies it")
    rr.floor = 1
    prog = ctx.prog
    # definitions: attr name -> list of guard lists (one per definition site); functions likewise
    defs: dict[str, list] = {}
    uses: dict[str, list] = {}
    guards_by_mod = {}
    for mi in prog.modules.values():
        gm = _enclosing_guards(prog, mi, mi.tree)
        guards_by_mod[mi.name] = gm
        for n in ast.walk(mi.tree):
            if isinstance(n, (ast.Assign, ast.AnnAssign)):
                ts = n.targets if isinstance(n, ast.Assign) else [n.target]
                for t in ts:
                    if isinstance(t, ast.Attribute) and isinstance(t.value, ast.Name) and t.value.id == "self":
                        defs.setdefault(t.attr, []).append((gm.get(id(n), []), mi, n))
                    elif isinstance(t, ast.Name) and isinstance(n, ast.AnnAssign) and n.value is None:
                        pass
            if isinstance(n, ast.FunctionDef):
                defs.setdefault("def:" + n.name, []).append((gm.get(id(n), []), mi, n))
    for ci in prog.all_classes():
        gm = guards_by_mod[ci.module.name]
        for st in ast.walk(ci.node):
            if isinstance(st, ast.AnnAssign) and isinstance(st.target, ast.Name):
                defs.setdefault(st.target.id, []).append((gm.get(id(st), []), ci.module, st))
            elif isinstance(st, ast.Assign):
                for t in st.targets:
                    if isinstance(t, ast.Name) and st in ci.node.body:
                        defs.setdefault(t.id, []).append((gm.get(id(st), []), ci.module, st))
    guarded = {}
    for name, sites in defs.items():
        if all(g for g, _m, _n in sites):
            guarded[name] = sites
    # call-site guards of functions (one level): function name -> list of guard lists
    callers: dict[str, list] = {}
    for mi in prog.modules.values():
        gm = guards_by_mod[mi.name]
        for n in ast.walk(mi.tree):
            if isinstance(n, ast.Call):
                nm = n.func.id if isinstance(n.func, ast.Name) else (n.func.attr if isinstance(n.func, ast.Attribute) else None)
                if nm:
                    callers.setdefault(nm, []).append(gm.get(id(n), []))
    for name, sites in guarded.items():
        rr.instances += 1
        defined_at = lambda v: any(_holds(g, v) for g, _m, _n in sites)
        is_func = name.startswith("def:")
        bare = name[4:] if is_func else name
        for mi in prog.modules.values():
            gm = guards_by_mod[mi.name]
            for fn in [f for f in ast.walk(mi.tree) if isinstance(f, ast.FunctionDef)] + [mi.tree]:
                body_nodes = ast.walk(fn) if fn is not mi.tree else []
                for n in body_nodes:
                    use = False
                    if not is_func and isinstance(n, ast.Attribute) and n.attr == bare and isinstance(n.ctx, ast.Load):
                        use = True
                    if is_func and isinstance(n, ast.Name) and n.id == bare and isinstance(n.ctx, ast.Load):
                        use = True
                    if not use:
                        continue
                    local = gm.get(id(n), [])
                    # versions at which this use is reached
                    call_guard_sets = callers.get(fn.name, [[]]) if fn is not mi.tree else [[]]
                    if fn.name in ("__init__", "get_load_name", "get_assign", "get_result"):
                        call_guard_sets = [[]]
                    bad_versions = []
                    for v in VERSIONS:
                        if not _holds(local, v):
                            continue
                        if not any(_holds(cg, v) for cg in call_guard_sets):
                            continue
                        if not defined_at(v):
                            bad_versions.append(v)
                    what = f"{bare}|{mi.rel}|{fn.name}"
                    if bad_versions:
                        rr.fail(
                            f"C06-R6|{bare}|used-unguarded|{getattr(fn, 'name', '<module>')}",
                            f"{mi.rel}:{n.lineno} ({getattr(fn, 'name', '<module>')}): `{bare}` is defined only under a sys.version_info guard but is read here on hosts {bad_versions[0][0]}.{bad_versions[0][1]}..{bad_versions[-1][0]}.{bad_versions[-1][1]} where it does not exist (AttributeError/NameError during conversion)",
                            where=f"{mi.rel}:{n.lineno}", what=what,
                        )
                    else:
                        rr.ok(what, sample={"rule": "C06-R6", "symbol": bare, "use": f"{mi.rel}:{n.lineno}", "verdict": "guard implies definition"})
    if not guarded:
        rr.note("no attribute or function is defined only under a version guard")
        rr.floor = 0
    return rr


def rule_r7(ctx):
    rr = RuleResult("C06-R7", "the value of a rewritten walrus is a load of the stored name through the namespace")
    rr.floor = 1
    for pr in all_expr_paths(ctx).get("NamedExpr", []):
        if pr.outcome != "ok":
            continue
        rr.instances += 1
        evs, w = events_of(pr.result)
        stores = [e for e in evs if e.kind == "store"]
        what = f"NamedExpr|{pr.extra.get('nsp_cls')}|{short_ctx(pr, 60)}"
        if len(stores) != 1:
            rr.fail("C06-R7|NamedExpr|store-count", f"PendingNamedExpr.get_result stores {len(stores)} times", what=what)
            continue
        s = stores[0]
        after = [e for e in evs if e.pos > s.pos and e.kind in ("raw", "load", "X", "load-user")]
        walrus_form = any(k.startswith("storeform:") and v is True for k, v in pr.assign.items())
        if walrus_form:
            # the namespace returned a walrus: its own value is the stored value
            if isinstance(pr.result, TNode) and pr.result.kind == "$Store":
                rr.ok(what)
            else:
                rr.fail("C06-R7|NamedExpr|walrus-form-wrapped", "PendingNamedExpr.get_result wraps a plain walrus", what=what)
            continue
        if len(after) == 1 and after[0].kind == "load" and after[0].extra.get("name") is s.extra.get("name") and after[0].extra.get("nsp_obj") is s.extra.get("nsp_obj"):
            rr.ok(what, sample={"rule": "C06-R7", "form": "[store, load][-1]", "verdict": "value read back through the namespace"})
        else:
            got = after[0].kind + ":" + after[0].path if after else "nothing"
            rr.fail(
                "C06-R7|NamedExpr|value-not-loaded-through-namespace",
                f"PendingNamedExpr.get_result ({pr.result.site if isinstance(pr.result, TNode) else ''}): when the store is not a plain walrus the value of the expression is `{got}` (the raw target), not get_load_name of the stored name: walrus on a nonlocal/global/class-level name reads a plain variable that does not exist",
                what=what,
            )
    return rr


def _comp_registry(ctx):
    """Where the comprehension wrappers register themselves in the namespace while they are open:
    {attribute of self.nsp: (kinds of effect in the constructor, kinds of effect in get_result)}."""
    from .exprcopy import all_expr_paths

    reg = {}
    n_paths = 0
    for kind in SCOPE_KINDS[1:]:
        for pr in all_expr_paths(ctx).get(kind, []):
            if pr.outcome != "ok":
                continue
            n_paths += 1
            for e in pr.effects:
                if e.get("obj") == "self.nsp" and e["kind"] in MUTATING_EFFECTS:
                    opened, closed = reg.setdefault(e["attr"], (set(), set()))
                    if e.get("phase") == 1:
                        # while the parts are rewritten: a registration counts as opening (a wrapper may
                        # register after the first iterable); removals are judged on the timeline (parts-inside)
                        if e["kind"] in ("append", "add", "update", "extend"):
                            opened.add(e["kind"])
                        continue
                    (opened if e.get("phase") == 0 else closed).add(e["kind"])
    if not n_paths:
        raise AnalysisError("C06-R9: no comprehension path of the expression rewriter could be analysed")
    return reg


MUTATING_EFFECTS = {
    "append", "extend", "insert", "pop", "remove", "clear", "add", "update", "discard",
    "difference_update", "intersection_update", "symmetric_difference_update", "__setitem__", "__delitem__",
}


def rule_r9(ctx):
    rr = RuleResult("C06-R9", "a name read inside nested comprehensions is tested against the targets of EVERY open comprehension")
    rr.floor = 2
    T = ctx.tmpl
    root, leaves, glob = T.namespace_leaves()
    reg = _comp_registry(ctx)
    rr.instances += 1
    if not reg:
        rr.fail("C06-R9|PendingComp|not-registered", "the comprehension wrapper does not register its targets in the namespace while it is open", what="registry")
    for attr, (opened, closed) in sorted(reg.items()):
        what = f"registry|{attr}"
        if not opened:
            continue
        if opened <= {"append"} and closed == {"pop"}:
            rr.ok(what, sample={"rule": "C06-R9", "registry": f"nsp.{attr}", "discipline": "stack: pushed by the constructor, popped by get_result"})
        elif not closed:
            rr.fail(f"C06-R9|PendingComp|{attr}|never-closed", f"the comprehension wrapper registers in nsp.{attr} ({sorted(opened)}) but get_result never removes the entry: after the comprehension its target names are still read as plain names", what=what)
        elif opened <= {"add", "update", "extend"} and closed <= {"discard", "remove", "difference_update"}:
            rr.fail(
                f"C06-R9|PendingComp|{attr}|closed-by-name",
                f"the open comprehensions share one flat collection nsp.{attr} and get_result removes the NAMES of the comprehension being closed ({sorted(closed)}): closing an inner comprehension also forgets an enclosing comprehension's variable of the same name (`[[x for x in r] and x for x in s]` then reads the function's/class's x)",
                what=what,
            )
        else:
            raise AnalysisError(f"C06-R9: cannot classify the open/close discipline of nsp.{attr}: {sorted(opened)} / {sorted(closed)}")
    # the outermost iterable of a comprehension is evaluated in the ENCLOSING scope (reference 6.2.4):
    # its names must be rewritten before the comprehension's own targets are registered
    from .exprcopy import all_expr_paths

    rr.instances += 1
    early = None
    for kind in SCOPE_KINDS[1:]:
        for pr in all_expr_paths(ctx).get(kind, []):
            if pr.outcome != "ok":
                continue
            for e in pr.effects:
                if e.get("obj") == "self.nsp" and e["kind"] in ("append", "add", "update", "extend") and e.get("attr") in reg:
                    if e.get("phase") == 0:
                        early = early or (kind, e)
                    elif e.get("phase") != 1:
                        raise AnalysisError("C06-R9: the comprehension wrapper registers its targets in get_result")
    if early:
        kind, e = early
        rr.fail(
            "C06-R9|PendingComp|outermost-iterable-under-own-targets",
            f"the comprehension wrapper registers its targets in its CONSTRUCTOR (nsp.{e['attr']}.{e['kind']}), i.e. before any of its parts is rewritten: the outermost iterable - which Python evaluates in the enclosing scope - is rewritten with the comprehension's own targets in force. `[x * 2 for x in x]` with `x` captured by an inner function reads a plain `x` (NameError) instead of the shared dict; with `x` a parameter it reads the stale parameter",
            what="registry|outermost-iterable",
        )
    else:
        rr.ok("registry|outermost-iterable", sample={"rule": "C06-R9", "verdict": "targets are registered while the parts are rewritten, not in the constructor"})
    # ... and ONLY the outermost iterable: every other part (the iterables of later clauses, the
    # conditions, the element) is rewritten while the comprehension's targets are registered
    rr.instances += 1
    outside = None
    for kind in SCOPE_KINDS[1:]:
        for pr in all_expr_paths(ctx).get(kind, []):
            if pr.outcome != "ok":
                continue
            ys = pr.extra.get("yields", [])
            # timeline of the registry entry of this comprehension: +1 on register, -1 on removal
            marks = []
            for e in pr.effects:
                if e.get("obj") == "self.nsp" and e.get("attr") in reg and "after_yields" in e and e.get("phase") in (0, 1):
                    if e["kind"] in ("append", "add", "update", "extend"):
                        marks.append((e["after_yields"], +1))
                    elif e["kind"] in ("pop", "remove", "discard", "difference_update", "clear"):
                        marks.append((e["after_yields"], -1))
            for i, (yk, v, _t) in enumerate(ys):
                level = sum(d for n, d in marks if n <= i)
                if level <= 0 and marks:
                    path = norm_path(v.short_path()) if hasattr(v, "short_path") else repr(v)
                    first_iter = bool(re.search(r"generators\[0\]\.iter$", path))
                    if not first_iter:
                        outside = outside or (kind, path)
    if outside:
        kind, path = outside
        rr.fail(
            "C06-R9|PendingComp|part-outside-own-targets",
            f"the comprehension wrapper rewrites {path} while its own targets are NOT registered: only the iterable of the FIRST clause is evaluated in the enclosing scope. In `[cell for row in rows for cell in row]` the `row` of the second clause is the first clause's target; rewritten without it, it becomes the function's captured `row` (`__ol_nonlocal_x['row']`, silently wrong values) or the class member (`KeyError`)",
            what="registry|parts-inside",
        )
    else:
        rr.ok("registry|parts-inside", sample={"rule": "C06-R9", "verdict": "no part other than the first iterable is rewritten outside the comprehension's targets"})
    attrs = [a for a, (o, c) in reg.items() if o]
    for ci in leaves:
        if ci is glob:
            continue
        ld = T.namespace_method(ci, "get_load_name")
        rr.instances += 1
        keys = sorted({k for p in ld.paths for k in p.assign if k.startswith("in:") and any(f".{a}" in k for a in attrs)})
        what = f"{ci.name}|comprehension-targets"
        if not keys:
            rr.fail(f"C06-R9|{ci.name}|targets-not-consulted", f"{ci.name}.get_load_name never consults the targets of the open comprehensions: a comprehension variable that shadows a nonlocal/class-level name is read from the dict", where=ci.module.rel, what=what)
        elif any(reg[a][0] <= {"append"} for a in attrs if any(f".{a}" in k for k in keys)) and not all("[*]" in k.split(":")[-1] for k in keys):
            rr.fail(
                f"C06-R9|{ci.name}|innermost-only",
                f"{ci.name}.get_load_name tests the name only against `{keys[0].split(':')[-1]}`, not against every comprehension on the stack: an inner comprehension that reads the OUTER comprehension's variable gets the enclosing function's/class's variable of the same name",
                where=ci.module.rel, what=what,
            )
        else:
            rr.ok(what, sample={"rule": "C06-R9", "class": ci.name, "test": keys[0]})
    return rr


def rule_r10(ctx):
    """Namespace-stack discipline of the statement driver (oneliner.convert:convert)."""
    rr = RuleResult("C06-R10", "the statement driver lowers every statement in the namespace on top of its namespace stack; push/pop of internal namespaces are paired")
    rr.floor = 4
    T = ctx.tmpl
    fn = T.convert_fn
    node = fn.node
    # (a) the constructor call through the dispatch table
    ctor = None
    for n in ast.walk(node):
        if isinstance(n, ast.Call) and (n.func is T.table_node or (isinstance(n.func, ast.Call) and n.func is T.table_node)):
            ctor = n
    if ctor is None:
        for n in ast.walk(node):
            if isinstance(n, ast.Call) and isinstance(n.func, ast.Subscript) and isinstance(n.func.value, ast.Name) and n.func.value.id == T.table_name:
                ctor = n
    if ctor is None:
        raise AnalysisError("C06-R10: the constructor call through the dispatch table was not found in convert()")
    kws = {k.arg: k.value for k in ctor.keywords}
    args = list(ctor.args)
    nsp_arg = kws.get("nsp", args[1] if len(args) > 1 else None)
    glob_arg = kws.get("nsp_global", args[2] if len(args) > 2 else None)
    rr.instances += 1
    stack_name = None
    if isinstance(nsp_arg, ast.Subscript) and isinstance(nsp_arg.value, ast.Name) and isinstance(nsp_arg.slice, ast.UnaryOp) and isinstance(nsp_arg.slice.op, ast.USub) and isinstance(nsp_arg.slice.operand, ast.Constant) and nsp_arg.slice.operand.value == 1:
        stack_name = nsp_arg.value.id
        rr.ok("ctor|nsp=stack[-1]", sample={"rule": "C06-R10", "constructor": ast.unparse(ctor)[:90]})
    else:
        rr.fail("C06-R10|convert|current-namespace", f"{fn.where()} line {ctor.lineno}: a statement is lowered with nsp=`{ast.unparse(nsp_arg) if nsp_arg is not None else None}` instead of the namespace on top of the namespace stack", where=fn.where(), what="ctor|nsp")
        return rr
    rr.instances += 1
    gname = glob_arg.id if isinstance(glob_arg, ast.Name) else None
    ginit = [n for n in ast.walk(node) if isinstance(n, ast.Assign) and any(isinstance(t, ast.Name) and t.id == gname for t in n.targets)]
    sinit = [n for n in ast.walk(node) if isinstance(n, (ast.Assign, ast.AnnAssign)) and any(isinstance(t, ast.Name) and t.id == stack_name for t in (n.targets if isinstance(n, ast.Assign) else [n.target]))]
    ok_init = (
        gname is not None and len(ginit) == 1 and isinstance(ginit[0].value, ast.Call) and "generate_nsp" in ast.unparse(ginit[0].value.func)
        and len(sinit) == 1 and isinstance(sinit[0].value, ast.List) and len(sinit[0].value.elts) == 1 and isinstance(sinit[0].value.elts[0], ast.Name) and sinit[0].value.elts[0].id == gname
    )
    if ok_init:
        rr.ok("stack-init")
    else:
        rr.fail("C06-R10|convert|stack-init", f"{fn.where()}: the namespace stack is not initialised with exactly the global namespace that is also passed as nsp_global", where=fn.where(), what="stack-init")
    # (c)/(d) pushes and pops of the namespace stack
    pushes, pops = [], []
    for n in ast.walk(node):
        if isinstance(n, ast.Call) and isinstance(n.func, ast.Attribute) and isinstance(n.func.value, ast.Name) and n.func.value.id == stack_name:
            if n.func.attr == "append":
                pushes.append(n)
            elif n.func.attr == "pop":
                pops.append(n)
            elif n.func.attr in ("insert", "extend", "clear", "remove"):
                pushes.append(n)

    def guard_of(call):
        for n in ast.walk(node):
            if isinstance(n, ast.If) and any(x is call for s in n.body for x in ast.walk(s)):
                inner = [m for m in ast.walk(n) if isinstance(m, ast.If) and m is not n and any(x is call for s in m.body for x in ast.walk(s))]
                if not inner:
                    return n
        return None

    rr.instances += 1
    bad = None
    if len(pushes) != 1 or len(pops) != 1:
        bad = f"{len(pushes)} pushes and {len(pops)} pops of the namespace stack (expected one each)"
    else:
        gp, gq = guard_of(pushes[0]), guard_of(pops[0])
        def flag_of(g):
            t = g.test if g is not None else None
            return (t.value.id, t.attr) if isinstance(t, ast.Attribute) and isinstance(t.value, ast.Name) else None
        fp, fq = flag_of(gp), flag_of(gq)
        arg = pushes[0].args[0] if pushes[0].args else None
        if fp is None or fq is None or fp[1] != fq[1]:
            bad = f"push is guarded by `{ast.unparse(gp.test) if gp is not None else None}` and pop by `{ast.unparse(gq.test) if gq is not None else None}`: not the same property of the node"
        elif not (isinstance(arg, ast.Call) and isinstance(arg.func, ast.Attribute) and isinstance(arg.func.value, ast.Name) and arg.func.value.id == fp[0]):
            bad = f"the pushed namespace `{ast.unparse(arg) if arg is not None else None}` is not the internal namespace of the node that was just constructed"
        else:
            # the guard variables: pushed node = result of the constructor; popped node = popped pending node
            def assigned_from(name):
                return [n.value for n in ast.walk(node) if isinstance(n, ast.Assign) and any(isinstance(t, ast.Name) and t.id == name for t in n.targets)]
            pv = assigned_from(fp[0])
            qv = assigned_from(fq[0])
            if not (len(qv) == 1 and isinstance(qv[0], ast.Call) and isinstance(qv[0].func, ast.Attribute) and qv[0].func.attr == "pop"):
                bad = f"the pop of the namespace stack is guarded by `{fq[0]}`, which is not the node popped from the pending stack"
            # the push must come after construction and before the children are requested
            elif pushes[0].lineno < ctor.lineno and not any(isinstance(f, ast.FunctionDef) and any(x is ctor for x in ast.walk(f)) for f in ast.walk(node) if f is not node):
                bad = "the internal namespace is pushed before the node is constructed"
    if bad:
        rr.fail("C06-R10|convert|push-pop-pairing", f"{fn.where()}: {bad}: statements of a function/class body would be lowered in the wrong namespace", where=fn.where(), what="pairing")
    else:
        rr.ok("pairing", sample={"rule": "C06-R10", "push": ast.unparse(pushes[0])[:70], "pop_guard": ast.unparse(guard_of(pops[0]).test)})
    # has_internal_namespace is true exactly for the classes that define get_internal_namespace
    rr.instances += 1
    badc = []
    for ci in T.statement_classes():
        ca = ci.find_class_attr("has_internal_namespace")
        flag = False
        if ca is not None and ca[1][0] is not None:
            try:
                flag = bool(ctx.prog.eval_const(ca[0].module, ca[1][0]))
            except Exception:
                flag = None
        m = ci.find_method("get_internal_namespace")
        own = m is not None and m.cls is not None and not any(isinstance(x, ast.Raise) for x in ast.walk(m.node))
        if flag is not None and bool(flag) != bool(own):
            badc.append(ci.name)
    if badc:
        rr.fail("C06-R10|classes|has-internal-namespace", f"has_internal_namespace disagrees with the presence of get_internal_namespace for {badc}", what="flags")
    else:
        rr.ok("flags")
    return rr


def _stmt_paths(stmts):
    """Paths through a statement list made of if/elif/else, continue/break/return/raise and simple
    statements: list of (list of simple statements executed, terminator or None)."""
    paths = [([], None)]
    for st in stmts:
        new = []
        for done, term in paths:
            if term is not None:
                new.append((done, term))
                continue
            if isinstance(st, ast.If):
                for sub, t in _stmt_paths(st.body):
                    new.append((done + [st.test] + sub, t))
                for sub, t in _stmt_paths(st.orelse):
                    new.append((done + sub, t))
            elif isinstance(st, (ast.Continue, ast.Break, ast.Return, ast.Raise)):
                new.append((done, type(st).__name__))
            else:
                new.append((done + [st], None))
        paths = new
    return paths


def rule_r11(ctx):
    """generate_nsp: the namespace stack and the symtable walk stack move together."""
    rr = RuleResult("C06-R11", "namespace construction: a namespace is pushed iff the walk descends into that symbol table; both stacks are popped together")
    rr.floor = 2
    mi = ctx.prog.modules.get("oneliner.namespaces")
    fi = mi.functions.get("generate_nsp") if mi else None
    if fi is None:
        raise AnalysisError("anchor oneliner.namespaces:generate_nsp vanished")
    loops = [n for n in ast.walk(fi.node) if isinstance(n, ast.While)]
    tries = [n for lp in loops for n in ast.walk(lp) if isinstance(n, ast.Try)]
    if len(tries) != 1 or not tries[0].orelse:
        raise AnalysisError("C06-R11: generate_nsp no longer has the shape `try: next(...) except StopIteration: pop; else: descend`")
    tr = tries[0]

    def stack_ops(nodes, attr):
        out = {}
        for n in nodes:
            for c in ast.walk(n):
                if isinstance(c, ast.Call) and isinstance(c.func, ast.Attribute) and c.func.attr == attr and isinstance(c.func.value, ast.Name):
                    out[c.func.value.id] = out.get(c.func.value.id, 0) + 1
        return out

    # which list holds namespaces (gets Namespace* instances appended) and which holds iterators
    ns_stack = walk_stack = None
    for c in ast.walk(ast.Module(body=tr.orelse, type_ignores=[])):
        if isinstance(c, ast.Call) and isinstance(c.func, ast.Attribute) and c.func.attr == "append" and isinstance(c.func.value, ast.Name) and c.args:
            txt = ast.unparse(c.args[0])
            if "Namespace" in txt:
                ns_stack = c.func.value.id
            elif "get_children" in txt or "iter(" in txt:
                walk_stack = c.func.value.id
    if not ns_stack or not walk_stack:
        raise AnalysisError("C06-R11: the two stacks of generate_nsp were not identified")
    rr.instances += 1
    pops = {}
    for h in tr.handlers:
        for k, v in stack_ops(h.body, "pop").items():
            pops[k] = pops.get(k, 0) + v
    if pops.get(ns_stack) == 1 and pops.get(walk_stack) == 1:
        rr.ok("pop-together", sample={"rule": "C06-R11", "handler_pops": pops})
    else:
        rr.fail("C06-R11|generate_nsp|pop-pairing", f"{fi.where()}: when a symbol table is exhausted the handler pops {pops} (expected one pop of `{ns_stack}` and one of `{walk_stack}`): later scopes are built under the wrong parent namespace", where=fi.where(), what="pops")
    for done, term in _stmt_paths(tr.orelse):
        rr.instances += 1
        a = stack_ops(done, "append")
        pushed_ns, pushed_walk = a.get(ns_stack, 0), a.get(walk_stack, 0)
        conds = [ast.unparse(x)[:40] for x in done if isinstance(x, ast.expr)]
        what = f"path|{'&'.join(conds)[:80]}|{term}"
        if pushed_ns != pushed_walk or pushed_ns > 1:
            rr.fail(
                "C06-R11|generate_nsp|push-pairing",
                f"{fi.where()}: on the path [{' / '.join(conds)[:120]}] {pushed_ns} namespace(s) are pushed but the walk descends {pushed_walk} time(s): the namespace stack and the symbol-table walk get out of step",
                where=fi.where(), what=what,
            )
        else:
            rr.ok(what)
    # a child table is skipped (no namespace, no descent) only on evidence no user scope can produce:
    # the name `lambda` (a keyword), or a comprehension name TOGETHER with the implicit parameter `.0`.
    # `genexpr`, `listcomp`, ... alone are valid identifiers: `def genexpr(): ...` has that table name.
    import keyword

    def name_test_strings(test):
        """String constants compared with <table>.get_name() inside a condition."""
        out = []
        for c in ast.walk(test):
            if isinstance(c, ast.Compare) and any(isinstance(x, ast.Call) and isinstance(x.func, ast.Attribute) and x.func.attr == "get_name" for x in ast.walk(c)):
                out += [k.value for k in ast.walk(c) if isinstance(k, ast.Constant) and isinstance(k.value, str)]
        return out

    def other_strings(test):
        names = set(name_test_strings(test))
        return [k.value for k in ast.walk(test) if isinstance(k, ast.Constant) and isinstance(k.value, str) and k.value not in names]

    def expand(test):
        """The condition plus the bodies of the module-level helpers it calls."""
        out = [test]
        for c in ast.walk(test):
            if isinstance(c, ast.Call) and isinstance(c.func, ast.Name):
                for n in ast.walk(mi.tree):
                    if isinstance(n, ast.FunctionDef) and n.name == c.func.id and n is not fi.node:
                        out.append(n)
        return out

    skipped_names = set()
    for done, term in _stmt_paths(tr.orelse):
        pushes = stack_ops(done, "append")
        if term != "Continue" or pushes.get(ns_stack):
            continue
        tests = [x for x in done if isinstance(x, ast.expr)]
        parts = [p for t in tests for p in expand(t)]
        names = [s_ for p in parts for s_ in name_test_strings(p)]
        if not names:
            continue
        skipped_names |= set(names)
        rr.instances += 1
        weak = [n for n in names if n.isidentifier() and not keyword.iskeyword(n)]
        evidence = [s_ for p in parts for s_ in other_strings(p) if not s_.isidentifier()]
        what = f"skip|{'&'.join(ast.unparse(t)[:30] for t in tests)[:80]}"
        # the walk does not descend into a skipped table: what is done for it must cover the tables
        # nested inside it (a lambda in a lambda, a comprehension in a comprehension) as well
        callees = []
        for st in done:
            for c in ast.walk(st):
                if isinstance(c, ast.Call) and isinstance(c.func, ast.Name):
                    callees += [n for n in ast.walk(mi.tree) if isinstance(n, ast.FunctionDef) and n.name == c.func.id and n is not fi.node and not any(n is p for p in parts)]
        if callees:
            rr.instances += 1
            descends = any(isinstance(x, ast.Attribute) and x.attr == "get_children" for n in callees for x in ast.walk(n))
            if descends:
                rr.ok(what + "|subtree", sample={"rule": "C06-R11", "skipped table handled by": [n.name for n in callees], "verdict": "visits get_children()"})
            else:
                rr.fail(
                    "C06-R11|generate_nsp|skipped-subtree-not-visited",
                    f"{fi.where()}: a lambda/comprehension table gets no namespace and the walk does not descend into it; {', '.join(n.name for n in callees)} looks at its own symbols only, never at get_children(): names used in a lambda/comprehension NESTED in it are missed (`[[abs(v) for v in row] for row in rows]` in a class body on hosts before 3.12: KeyError 'abs')",
                    where=fi.where(), what=what + "|subtree",
                )
        # generator expressions keep a symbol table of their own on EVERY host (PEP 709 inlines only
        # list/set/dict comprehensions from 3.12 on): the skip that covers `genexpr` must not be limited
        # to hosts before 3.12
        if "genexpr" in names:
            from ..model import version_test

            rr.instances += 1
            limited = None
            for t in tests:
                for sub in ast.walk(t):
                    vt = version_test(ctx.prog, mi, sub) if isinstance(sub, ast.Compare) else None
                    if vt is not None and vt[0] in ("<", "<=") and vt[1] is not None and tuple(vt[1])[:2] <= (3, 12):
                        limited = sub
            if limited is not None:
                rr.fail(
                    "C06-R11|generate_nsp|genexpr-skip-host-dependent",
                    f"{fi.where()}: comprehension tables are passed over only when `{ast.unparse(limited)}`; on a 3.12+ host a generator expression still has its own table and becomes a function namespace: `class A: r = list(abs(i) for i in xs)` stops the conversion with KeyError 'abs', `for row in rows: sum(row[k] for k in ks)` in a function fails with KeyError 'row' at run time (hosts 3.10/3.11 convert both)",
                    where=fi.where(), what=what + "|genexpr-host",
                )
            else:
                rr.ok(what + "|genexpr-host", sample={"rule": "C06-R11", "verdict": "genexpr tables are skipped on every host"})
        if weak and not evidence:
            rr.fail(
                "C06-R11|generate_nsp|skip-by-name",
                f"{fi.where()}: a child symbol table is skipped (no namespace is created for it) because its name is one of {sorted(set(weak))} and nothing else: `def {weak[0]}(): ...` is a legal user function with exactly that table name, it gets no namespace and the conversion of its `def` fails ('Namespace not found')",
                where=fi.where(), what=what,
            )
        else:
            rr.ok(what, sample={"rule": "C06-R11", "skip": [ast.unparse(t)[:50] for t in tests], "names": sorted(set(names)), "extra evidence": sorted(set(evidence))})
    # ... and EVERY scope that has no statement of its own must be passed over: the names CPython's
    # symtable gives them (Python/symtable.c: lambda, listcomp, setcomp, dictcomp, genexpr).  A table of
    # one of these kinds that is not recognised becomes a function namespace no statement ever claims.
    rr.instances += 1
    SCOPES_WITHOUT_STATEMENT = ("lambda", "listcomp", "setcomp", "dictcomp", "genexpr")
    missing_sk = [n for n in SCOPES_WITHOUT_STATEMENT if n not in skipped_names]
    if skipped_names and missing_sk:
        rr.fail(
            f"C06-R11|generate_nsp|scope-kind-not-skipped|{'+'.join(missing_sk)}",
            f"{fi.where()}: the symbol tables named {missing_sk} are not among the names that are passed over ({sorted(skipped_names)}): such a table is treated as an ordinary function, its globals are not collected for the enclosing class body (a class attribute read inside the generator/comprehension is loaded from the class dict instead of the globals) and its names are resolved in a namespace no `def` belongs to",
            where=fi.where(), what="skip|table-names",
        )
    else:
        rr.ok("skip|table-names", sample={"rule": "C06-R11", "skipped": sorted(skipped_names)})
    # the statement side: a def/class statement picks, among the children of the current namespace,
    # the one built from ITS symbol table.  Names repeat (redefinitions, property setters, overloads,
    # conditional definitions); the line of the statement does not, so the match must test it.
    T = ctx.tmpl
    for kind in ("FunctionDef", "ClassDef"):
        entry = T.pending_by_kind(kind)
        rr.instances += 1
        bad = None
        n_ok = 0
        for pr in entry.ok_paths():
            n_ok += 1
            if not any(k.startswith("eq:") and "get_lineno()" in k and f"{kind}.lineno" in k and v is True for k, v in pr.assign.items()):
                bad = bad or pr
        what = f"{kind}|namespace-match"
        if not n_ok:
            raise AnalysisError(f"C06-R11: no analysable path of Pending{kind}")
        if bad is not None:
            tests = sorted(k for k, v in bad.assign.items() if k.startswith("eq:") and "symt" in k and v is True)
            rr.fail(
                f"C06-R11|{kind}|namespace-match|line-not-tested",
                f"Pending{kind}.__init__ selects its internal namespace without comparing the symbol table's line with the statement's (tests: {tests or 'none'}): the second `def f` / `class C` of a scope (a redefinition, a property setter, a conditional definition) is lowered in the namespace of the FIRST",
                what=what,
            )
        else:
            rr.ok(what, sample={"rule": "C06-R11", "statement": kind, "verdict": "internal namespace matched by line (and name)"})
    return rr


def rule_r12(ctx):
    """expr_transf is for USER expressions.  Applied to a node the converter built itself (the
    `slice(...)` call made from a user Slice), the converter's own names (`slice`) are looked up in
    the scope like user names: NamespaceClass.get_load_name asks the class's symbol table
    unconditionally, and the table has no such symbol (KeyError during conversion); where the lookup
    succeeds, a class attribute or nonlocal variable of that name captures the converter's builtin."""
    rr = RuleResult("C06-R12", "the rewriter is applied to user expressions only (no converter-built name is resolved like a user name)")
    rr.exhaustive = True
    rr.floor = 10
    T = ctx.tmpl
    seen = set()
    for ci, kinds, entry in T.all_pending():
        rr.instances += 1
        for pr in entry.ok_paths():
            kind = kinds_label(pr.extra["node"].kinds)
            evs, w = path_events(pr)
            for e in evs:
                if e.kind == "load-const" and e.nsp is not None:
                    key = (kind, e.path)
                    if key in seen:
                        continue
                    seen.add(key)
                    rr.fail(
                        f"C06-R12|{kind}|{e.path}|converter-name-through-namespace",
                        f"{ci.name} ({e.site}): the converter-built name `{e.path}` lies inside a node that is handed to expr_transf, so it is resolved like a user name in {e.nsp}: in a class body the class's symbol table is asked for `{e.path}` and raises KeyError (`class A: x[1:3] = v` / `x[1:3] += v` stop the conversion with KeyError: 'slice'); elsewhere a user variable of that name captures it",
                        where=str(e.site), what=f"{kind}|{e.path}",
                    )
    if not seen:
        rr.ok("templates", sample={"rule": "C06-R12", "verdict": "every rewritten node is a user expression"})
    return rr


def rule_r8(ctx):
    from .common import cached
    from .exprcopy import transf_entry_paths

    rr = RuleResult("C06-R8", "expr_transf hands every expression, in every namespace, to the rewriting driver (validity of the summary X)")
    rr.floor = 3
    fi, paths = cached(ctx, "transf_entry_paths", lambda: transf_entry_paths(ctx))
    for pr in paths:
        rr.instances += 1
        what = f"expr_transf|{short_ctx(pr, 100)}"
        args = pr.extra.get("args") or [None, None]
        r = pr.result
        ok = pr.outcome == "ok" and isinstance(r, TNode) and r.kind == "$Cvt" and r.fields.get("node") is args[1] and r.fields.get("nsp") is args[0]
        if ok:
            rr.ok(what, sample={"rule": "C06-R8", "context": short_ctx(pr, 60), "verdict": "ExpressionTransformer(nsp).cvt(node)"})
        elif pr.outcome == "raise":
            rr.ok(what, nontrivial=False)
        elif pr.outcome == "ok" and r is args[1] and isinstance(r, UNode) and r.kinds <= {"Constant"}:
            # a constant contains no names and no sub-expressions: returning it unchanged is harmless
            rr.ok(what, nontrivial=False)
        else:
            from ..tmpl import show

            rr.fail(
                "C06-R8|expr_transf|bypass",
                f"{fi.where()}: in the context [{short_ctx(pr, 100)}] expr_transf returns `{show(r, maxdepth=3)[:60]}` instead of the result of the rewriting driver on (nsp, node): names in the expression are not routed through the namespace, and expression kinds that must be rejected (yield, await, async comprehensions) are copied through",
                where=fi.where(), what=what,
            )
    return rr


def rule_c14r1(ctx):
    """"... and the final module namespace coincide": what an import statement binds to a name
    (shared rule C14-R1)."""
    from .c14 import rule_r1 as r

    return r(ctx)


RULES = [
    ("C14-R1", rule_c14r1), ("C06-R8", rule_r8), ("C06-R9", rule_r9), ("C06-R10", rule_r10), ("C06-R11", rule_r11),
    ("C06-R1", rule_r1), ("C06-R2", rule_r2), ("C06-R3", rule_r3), ("C06-R4", rule_r4),
    ("C06-R5", rule_r5), ("C06-R6", rule_r6), ("C06-R7", rule_r7), ("C06-R12", rule_r12),
]
