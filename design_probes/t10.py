from p import run
run("class A:\n    def __setitem__(s,i,v): print(i,v)\n    def __getitem__(s,i): return 0\na=A()\na[1:2, 3] = 0", True, True)
run("class O: x=0\no=O()\ndef f():\n    print('f'); return o\nf().x += 1\nprint(o.x)", True, False)
