"""Expression grammar oracle for C03-R3 / C15-R1, written from the language
definition (Grammar/python.gram of CPython 3.12; Grammar/Grammar of 3.8 for the
floor column) - never derived from the repository.

A child needs parentheses in a slot iff rank(child) < min_rank(slot).
Higher rank binds tighter."""

# --- tightness rank per child "variant" (node kind, or kind:operator) -------------
RANK = {
    "Yield": 0, "YieldFrom": 0,
    "NamedExpr": 1,
    "Lambda": 2, "IfExp": 2,
    "BoolOp:Or": 3, "BoolOp:And": 4, "UnaryOp:Not": 5, "Compare": 6,
    "BinOp:BitOr": 7, "BinOp:BitXor": 8, "BinOp:BitAnd": 9,
    "BinOp:LShift": 10, "BinOp:RShift": 10,
    "BinOp:Add": 11, "BinOp:Sub": 11,
    "BinOp:Mult": 12, "BinOp:MatMult": 12, "BinOp:Div": 12, "BinOp:FloorDiv": 12, "BinOp:Mod": 12,
    "UnaryOp:UAdd": 13, "UnaryOp:USub": 13, "UnaryOp:Invert": 13,
    "BinOp:Pow": 14,
    "Await": 15,
    "Attribute": 16, "Subscript": 16, "Call": 16,
    "Name": 17, "Constant": 17, "JoinedStr": 17, "List": 17, "Dict": 17, "Set": 17,
    "ListComp": 17, "SetComp": 17, "DictComp": 17,
    # Tuple: 17 only because the renderer brackets it itself (checked by the skeleton rule)
    "Tuple": 17,
}
# GeneratorExp is rendered bare: parentheses everywhere except as the sole call argument.
# Starred / Slice are positional: never parenthesised, legal only in the slots below.
SPECIAL_CHILDREN = ("GeneratorExp", "Starred", "Slice", "FormattedValue")

STARRED_LEGAL = {("List", "elts"), ("Tuple", "elts"), ("Set", "elts"), ("Call", "args")}
SLICE_LEGAL = {("Subscript", "slice"), ("Tuple", "elts")}

BINOP_LEVEL = {
    "BitOr": 7, "BitXor": 8, "BitAnd": 9, "LShift": 10, "RShift": 10, "Add": 11, "Sub": 11,
    "Mult": 12, "MatMult": 12, "Div": 12, "FloorDiv": 12, "Mod": 12,
}


def min_rank(kind, field, op=None, floor38=False):
    """Minimum child rank a slot accepts without parentheses; None = unknown slot."""
    if (kind, field) in (("Attribute", "value"), ("Subscript", "value"), ("Call", "func"), ("Await", "value")):
        return 16
    if kind == "BinOp":
        if op == "Pow":
            return 15 if field == "left" else 13  # await_primary ** factor (right associative)
        lvl = BINOP_LEVEL.get(op)
        if lvl is None:
            return None
        return lvl if field == "left" else lvl + 1  # left associative
    if kind == "UnaryOp":
        return 5 if op == "Not" else 13
    if kind == "Compare":
        return 7
    if kind == "BoolOp":
        return 5 if op == "And" else 4
    if kind == "IfExp":
        return 2 if field == "orelse" else 3
    if kind == "Lambda":
        return 2  # body and defaults: `expression`
    if kind == "comprehension":
        if field in ("iter", "ifs"):
            return 3  # disjunction
        if field == "target":
            return 7  # star_targets: never needs parentheses for valid targets
    if kind == "GeneratorExp" and field == "elt" and floor38:
        # 3.8: `f(x := v for v in it)` is a syntax error (argument: test [comp_for] | test ':=' test);
        # the renderer prints a sole-argument generator bare, so its element must not be a bare walrus
        return 2
    if kind in ("ListComp", "SetComp", "GeneratorExp") and field == "elt":
        return 1  # named_expression
    if kind == "DictComp" and field in ("key", "value"):
        return 2
    if kind == "Dict":
        if field == "values**":
            return 7  # '**' bitwise_or
        return 2
    if kind in ("List", "Tuple") and field == "elts":
        return 1
    if kind == "Set" and field == "elts":
        return 2 if floor38 else 1
    if kind == "Starred" and field == "value":
        return 7  # '*' bitwise_or
    if kind == "Call":
        if field == "args":
            return 1
        if field in ("keywords", "keywords**"):
            return 2
    if kind == "Subscript" and field == "slice":
        return 2 if floor38 else 1
    if kind == "Slice":
        return 2
    if kind in ("Yield", "YieldFrom", "NamedExpr") and field == "value":
        return 2
    if kind == "FormattedValue" and field == "value":
        return 2  # plus: Lambda always parenthesised, yield allowed, leading '{' spaced
    if kind == "JoinedStr":
        return 0
    return None


# Slots that carry arbitrarily long chains in real programs (elif chains, operator chains,
# call/attribute chains): if the same-kind child is parenthesised there, a chain of N links becomes
# N nested parentheses and CPython refuses the text beyond about 200 ("too many nested parentheses").
def chain_slots():
    out = [("IfExp", "orelse", None, ["IfExp"])]
    for op, lvl in BINOP_LEVEL.items():
        same = [f"BinOp:{o}" for o, l in BINOP_LEVEL.items() if l == lvl]
        out.append(("BinOp", "left", op, same))
    out.append(("BinOp", "right", "Pow", ["BinOp:Pow"]))
    for k, f in (("Attribute", "value"), ("Subscript", "value"), ("Call", "func")):
        out.append((k, f, None, ["Attribute", "Subscript", "Call"]))
    for op in ("Not", "USub", "UAdd", "Invert"):
        out.append(("UnaryOp", "operand", op, [f"UnaryOp:{op}"]))
    return out
