"""A comprehension target hides the enclosing variable of the same name in the first iterable

`[n for n in range(n)]`: the outermost iterable is evaluated in the enclosing scope, so the
`n` in `range(n)` is the enclosing variable.  When that variable lives in the nonlocal dict
(captured by an inner function) or in the class dict, the converter leaves a bare `n`
because the name is in the comprehension's target set -> NameError.
"""
import os, sys
sys.path.insert(0, os.environ["OLREPO"])
import io, contextlib, itertools
import oneliner
from oneliner.config import Configs

SCRIPT = 'def f():\n    n = 2\n    def g():\n        return n\n    return [n for n in range(n)], g()\nprint(f())\n'


def run(code, mode):
    g = {"__name__": "__main__"}
    buf = io.StringIO()
    exc = None
    try:
        with contextlib.redirect_stdout(buf):
            if mode == "exec":
                exec(compile(code, "<script>", "exec"), g)
            else:
                eval(compile(code, "<converted>", "eval"), g)
    except BaseException as e:  # noqa
        exc = type(e).__name__ + ": " + str(e)
    return buf.getvalue(), exc


def main():
    print("script:")
    print(SCRIPT)
    expected = run(SCRIPT, "exec")
    print("expected (exec of the script): stdout=%r exception=%r" % expected)
    bad = 0
    for u, w, i in itertools.product(
        ["ast.unparse", "oneliner"], ["list", "chain_call"], ["if_expr", "short_circuit"]
    ):
        c = Configs()
        c.unparser, c.expr_wrapper, c.if_style = u, w, i
        try:
            text = oneliner.convert_code_string(SCRIPT, configs=c)
        except BaseException as e:  # noqa
            got = ("", "conversion failed with %s: %s" % (type(e).__name__, e))
        else:
            got = run(text, "eval")
        ok = got == expected
        if not ok:
            bad += 1
        print("%-11s %-10s %-13s %s stdout=%r exception=%r" % (u, w, i, "ok  " if ok else "FAIL", got[0], got[1]))
    if bad:
        print("DEFECT SHOWN in %d of 8 option combinations" % bad)
        sys.exit(1)
    print("no difference")


main()
