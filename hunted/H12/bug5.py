"""bug5: an integer literal of more than 4300 decimal digits (only possible as a hex / octal / binary
literal, e.g. a 16384 bit constant `0x...` with 4096 hex digits) crashes the conversion with an internal
ValueError ('Exceeds the limit (4300 digits) for integer string conversion'): both unparsers write
integers with repr(). (A decimal rendering could not be parsed by a 3.11+ runtime either; hex() has no
limit.)  3571 hex digits work, 3572 do not."""
import sys, os, io, contextlib

sys.path.insert(0, os.environ["OLREPO"])
import oneliner
from oneliner.config import Configs

bad = 0
for digits in (3571, 3572, 4096):
    src = "x = 0x" + "f" * digits + "\nprint(x % 1000, x.bit_length())\n"
    buf = io.StringIO()
    with contextlib.redirect_stdout(buf):
        exec(src, {})
    exp = buf.getvalue()
    for unparser in ("ast.unparse", "oneliner"):
        cfg = Configs()
        cfg.unparser = unparser
        try:
            text = oneliner.convert_code_string(src, configs=cfg)
            buf = io.StringIO()
            with contextlib.redirect_stdout(buf):
                eval(text, {})
            res = "ok" if buf.getvalue() == exp else "DIFFERENT " + buf.getvalue()
        except BaseException as e:
            res = "%s: %s" % (type(e).__name__, str(e)[:75])
        if res != "ok":
            bad += 1
        print("%d hex digits, %-11s: %s" % (digits, unparser, res))
sys.exit(1 if bad else 0)
