"""Maintenance tool: regenerate /verif/MANIFEST.json from the rule modules."""
import importlib, json, os, sys
sys.path.insert(0, os.path.dirname(os.path.dirname(os.path.abspath(__file__))))
from olsa.__main__ import PROPS

NOT_DECIDED = {
 "C01": "behavioural equivalence of arbitrary programs (run-time values) is NOT decided; only the three structural clauses named above",
 "C02": "well-formedness of the text printed by the stdlib ast.unparse is trusted; the custom unparser's text is C03/C04",
 "C03": "that CPython's parser implements the reference grammar is trusted; literal fidelity is C04",
 "C04": "contracts of ascii()/repr(); nothing about ast.unparse",
 "C05": "correctness of the guard-insertion algorithm for EVERY nesting is not decided (algorithmic invariant); only the counter/flag protocol, owner agreement and a structural validation of _iter_branch on a generic block",
 "C06": "symtable's classification of a concrete scope tree on each host is not decided; routing, agreement of the decision lists and coverage are",
 "C07": "decided at template level (one generic element per user list); order inside stdlib helpers is CPython's",
 "C08": "errors raised inside ast.parse/symtable are stdlib behaviour",
 "C09": "non-collision of random suffixes is a probability argument (name space size is checked)",
 "C10": "user ASTs are parsed afresh per call (aliasing of user nodes is call-local)",
 "C11": "CPython's argument binding (acceptance/rejection of call shapes) is run-time behaviour; ast.unparse's rendering is trusted",
 "C12": "metaclass derivation, creation hooks, MRO are run-time behaviour of type(...)",
 "C13": "arithmetic results and slot-versus-hasattr lookup are run-time behaviour",
 "C14": "effects of the import system given the same arguments are CPython's",
 "C15": "everything about RUNNING on 3.8-3.13 and about ast.unparse per host is NOT decided; only the custom unparser's syntax floor, host independence of emission and the template floor",
 "C16": "argparse behaviour; the meaning of the written text is C01's",
 "C17": "actual limits/thresholds and CPython's limits on the output are not decided; only structural sources of depth",
}
TECH = {
 "C01": "abstract interpretation of builder code into templates; truth-table comparison of option-sibling guards; def-use of the pipeline",
 "C02": "type analysis over emitted templates (identifier typing, ASDL/placement typing, comprehension-scope placement of holes)",
 "C03": "table extraction by abstract interpretation (string-template domain) + exhaustive slot x child check against a grammar rank oracle",
 "C04": "interval/cell analysis of the escaping if-chain; case analysis and skeleton rules on the constant and f-string generators",
 "C05": "effect analysis and typestate of counter/flag protocol on extracted templates; structural validation of the guard-insertion function",
 "C06": "typestate raw->rewritten on templates; decision-list extraction and exhaustive model comparison under symtable axioms; version-guard dominance",
 "C07": "multiplicity and evaluation-order analysis of template holes against a Language-Reference order table",
 "C08": "exhaustiveness of dispatch tables, error-discipline (raise-on-all-paths) and abstract dispatch of the expression rewriter",
 "C09": "scope/capture analysis of converter-built binders over templates; constant evaluation of reserved templates",
 "C10": "interprocedural effect (write-location) analysis over the typed call graph; RNG confinement",
 "C11": "field-to-field mapping rules on the function template; skeleton rule on the lambda renderer",
 "C12": "template rules on the class template (header, binding, loader, install loop, implicit classmethods)",
 "C13": "table comparison, exclusive-path store counting, linear-form check of destructuring indices",
 "C14": "template rules with import-helper summaries; flag/bootstrap pairing via recorded effects",
 "C15": "grammar-floor column of the parenthesisation oracle; control-dependence on sys.version_info; ASDL-3.8 floor of templates",
 "C16": "statement-level dominance and def-use analysis of __main__; static model of the accepted option names",
 "C17": "SCC analysis of the typed call graph with descent-field classification; template depth (accumulator nesting)",
}
props=[json.loads(l) for l in open('properties.jsonl')]
checks=[]
for pr in props:
    pid=pr['id']
    mod=importlib.import_module(f'olsa.rules.{pid.lower()}')
    checks.append({
      "property_id": pid,
      "quick_cmd": f"/venv/bin/python -m olsa check {pid} --tier quick",
      "thorough_cmd": f"/venv/bin/python -m olsa check {pid} --tier thorough",
      "evidence_file": f"/verif/evidence/{pid}.json",
      "replay_cmd_template": "/venv/bin/python -m olsa replay {path}",
      "engine": "olsa",
      "level_claimed": {"category": "other", "text": "Static analysis (no repository code is executed): " + mod.EXPLANATION + " Partial claim: the structural clauses named here are necessary conditions of the property; a green check decides those clauses, not the behaviour.", "design_ref": f"DESIGN.md section 3 ({pid}), section 10"},
      "level_note": "NOT decided: " + NOT_DECIDED[pid] + ". Trusted: " + "; ".join(mod.ASSUMPTIONS) + ". Rules: " + ", ".join(r for r,_ in mod.RULES) + ".",
      "technique": TECH[pid],
    })
m={
 "version":1,
 "setup_cmd":"/venv/bin/python -m olsa selfcheck",
 "hooks":{"guard":"ONELINER_PY_VERIF","enable":"no hooks: the checks parse /repo's working tree and never run it","baseline_off_cmd":"cd /repo && /venv/bin/python -m pytest -q -p no:cacheprovider --timeout=900","source_commits":[],"add_only":True},
 "engines":[{"name":"olsa","path":"/verif/olsa","serves_properties":[p['id'] for p in props],"kind_free_text":"repository-specific static analysis in pure Python (ast): program model M (resolution, constant evaluation, typed call graph), engine T (path-enumerating abstract interpreter of the AST-builder code producing templates with holes), Ustr (same interpreter with a string-template domain for the unparser), reference oracles (grammar ranks, evaluation order, symtable axioms, in-place methods)"}],
 "checks":checks,
 "notes":"All 17 properties are claimed PARTIALLY (category 'other'): each check decides named structural clauses that are necessary conditions of the property, from the source alone. Known genuine defects are listed in /verif/known_findings.json (printed as KNOWN-FINDING lines). Thorough tier = quick + self-test of the rules on the mutant corpus of that property.",
 "not_applicable":[]
}
json.dump(m,open('MANIFEST.json','w'),indent=1)
print('manifest written with',len(checks),'checks')
