from p import run
run("def g():\n    yield 1\nprint(list(g()))", True)
run("def g():\n    x = yield from [1]\n", True)
run("print([x async for x in y])", True)
run("f = lambda: (yield)", True)
run("await x", True)
