"""bug2: a converted loop is a list comprehension whose element is the converted body, so every iteration
leaves an object behind until the loop ends: memory is O(number of iterations) (about 160 bytes per
iteration with expr_wrapper=list, 260 with chain_call, for a two statement body) where the source runs in
constant memory. A plain counting loop of 3*10**7 iterations (5 s, 17 MB as a script) dies with MemoryError
under `ulimit -v 4000000`. Nested loops multiply. All option combinations, all runtimes, `for` and `while`.
Here: 10**6 iterations, the peak RSS of the child process is compared."""
import sys, os, subprocess

sys.path.insert(0, os.environ["OLREPO"])
import oneliner
from oneliner.config import Configs

N = 10**6
FOR = "x = 0\ny = 0\nfor lvi in range(N):\n    x += lvi\n    y += 1\nprint(x, y)\n"
WHILE = "x = 0\nwhile x < N:\n    x += 1\n    y = x\nprint(x, y)\n"


def child(code_text, mode):
    prog = (
        "import resource\nns = {'N': %d}\n" % N
        + ("exec(%r, ns)\n" if mode == "exec" else "eval(%r, ns)\n") % code_text
        + "print('RSS', resource.getrusage(resource.RUSAGE_SELF).ru_maxrss // 1024)\n"
    )
    p = subprocess.run(["bash", "-c", "ulimit -v 4000000; exec %s -" % sys.executable], input=prog, capture_output=True, text=True, timeout=600)
    lines = p.stdout.strip().splitlines()
    if p.returncode != 0 or len(lines) < 2:
        return None, (p.stderr.strip().splitlines() or ["?"])[-1]
    return int(lines[-1].split()[1]), lines[0]


bad = 0
for name, src in (("for", FOR), ("while", WHILE)):
    base, out0 = child(src, "exec")
    print("%-5s source       : peak RSS %4d MB  output %s" % (name, base, out0))
    for wrapper in ("list", "chain_call"):
        for if_style in ("if_expr",):
            cfg = Configs()
            cfg.unparser, cfg.expr_wrapper, cfg.if_style = "oneliner", wrapper, if_style
            text = oneliner.convert_code_string(src, configs=cfg)
            rss, out = child(text, "eval")
            flag = rss is None or rss > base + 50 or out != out0
            bad += flag
            print("%-5s %-12s : peak RSS %s MB  output %s%s" % (name, wrapper, rss, out, "   <-- grows with the iteration count" if flag else ""))
sys.exit(1 if bad else 0)
