"""C16 - the command line writes exactly the API result and validates options
(statement-level flow analysis of oneliner/__main__.py)."""
from __future__ import annotations

import ast

from ..core import AnalysisError, RuleResult
from ..model import ClassInfo, FuncInfo

EXPLANATION = (
    "oneliner/__main__.py is straight-line module code, so a statement-level flow analysis "
    "suffices: C16-R1 every path to the statement that opens the output for writing (and to the "
    "print) passes through all option processing, the read of the input and the conversion call, "
    "and nothing that can raise on user input follows the open; C16-R2 def-use: the written / "
    "printed value is the unmodified result of convert_code_string(script, configs=cfg), script "
    "is the unmodified read() of the input file, cfg is the object the -C loop and --unparser "
    "write to; C16-R3 the names the -C guard accepts equal the set of option descriptors, values "
    "go through the descriptor's __set__, whose list-typed branch raises for every value outside "
    "the declared list before storing; C16-R4 must-analysis over the descriptor's __set__: every "
    "non-raising exit stores the value in the instance under the key __get__ reads (the last -C wins)."
    ' C16-R2 also: the input is read as bytes, the output is opened with the constant UTF-8.'
)
ASSUMPTIONS = ["argparse behaviour is the stdlib's", "the meaning of the written text is C01's"]


class _Script:
    """The command-line module with its flow made straight-line: a parameterless function that the
    module body calls unconditionally (`main()`, also in the shape `if __name__ == "__main__":
    main() else: main()`) is inlined at its call, so the statement-level rules see one script."""

    def __init__(self, mi):
        self.mi = mi
        self.rel = mi.rel
        self.name = mi.name
        self.tree = _inline_entry(mi.tree)

    def __getattr__(self, item):
        return getattr(self.mi, item)


def _inline_entry(tree):
    defs = {st.name: st for st in tree.body if isinstance(st, ast.FunctionDef) and not (st.args.args or st.args.posonlyargs or st.args.kwonlyargs or st.args.vararg or st.args.kwarg)}

    def single_call(stmts):
        real = [s_ for s_ in stmts if not (isinstance(s_, ast.Expr) and isinstance(s_.value, ast.Constant))]
        if len(real) == 1 and isinstance(real[0], ast.Expr) and isinstance(real[0].value, ast.Call) and isinstance(real[0].value.func, ast.Name) and real[0].value.func.id in defs and not real[0].value.args and not real[0].value.keywords:
            return real[0].value.func.id
        return None

    body = []
    inlined = set()
    for st in tree.body:
        name = None
        if isinstance(st, ast.Expr):
            name = single_call([st])
        elif isinstance(st, ast.If) and st.orelse:
            a, b = single_call(st.body), single_call(st.orelse)
            if a is not None and a == b:
                name = a
        if name is not None and name not in inlined:
            inlined.add(name)
            fbody = [x for x in defs[name].body if not isinstance(x, (ast.Global, ast.Nonlocal))]
            if any(isinstance(x, ast.Return) for f_ in fbody for x in ast.walk(f_)):
                body.append(st)  # early returns: keep the call (not the modelled shape)
                inlined.discard(name)
            else:
                body.extend(fbody)
        else:
            body.append(st)
    body = [st for st in body if not (isinstance(st, ast.FunctionDef) and st.name in inlined)]
    return ast.Module(body=body, type_ignores=[])


def _main(prog):
    mi = prog.modules.get("oneliner.__main__")
    if mi is None:
        raise AnalysisError("anchor module oneliner.__main__ vanished")
    cache = prog.__dict__.setdefault("_c16_script", {})
    if "s" not in cache:
        cache["s"] = _Script(mi)
    return cache["s"]


def _calls(n):
    return [c for c in ast.walk(n) if isinstance(c, ast.Call)]


def _callee_name(c):
    f = c.func
    return f.attr if isinstance(f, ast.Attribute) else (f.id if isinstance(f, ast.Name) else None)


def _is_write_open(c):
    if _callee_name(c) == "open":
        if any(kw.arg is None for kw in c.keywords) or any(isinstance(a, ast.Starred) for a in c.args):
            raise AnalysisError(f"C16: `{ast.unparse(c)[:60]}` passes its arguments through */** : mode and encoding of the file cannot be read off the call")
        if (len(c.args) > 1 and not isinstance(c.args[1], ast.Constant)) or any(kw.arg == "mode" and not isinstance(kw.value, ast.Constant) for kw in c.keywords):
            raise AnalysisError(f"C16: the mode of `{ast.unparse(c)[:60]}` is not a constant")
        mode = None
        if len(c.args) > 1 and isinstance(c.args[1], ast.Constant):
            mode = c.args[1].value
        for kw in c.keywords:
            if kw.arg == "mode" and isinstance(kw.value, ast.Constant):
                mode = kw.value.value
        return isinstance(mode, str) and any(ch in mode for ch in "wax+")
    return _callee_name(c) in ("write_text", "write_bytes", "truncate")


def _top_index(mi, node):
    for i, st in enumerate(mi.tree.body):
        if any(x is node for x in ast.walk(st)):
            return i
    return None


def _is_top_level(mi, node):
    """Is the node executed unconditionally (not under an if/for/while of the module body)?"""
    i = _top_index(mi, node)
    st = mi.tree.body[i]
    # allowed wrappers: with-statements and plain expression/assign statements
    cur = [st]
    while cur:
        n = cur.pop()
        if n is node or any(x is node for x in ast.iter_child_nodes(n)):
            if isinstance(n, (ast.If, ast.For, ast.While, ast.Try)) and n is not node:
                return False
        for ch in ast.iter_child_nodes(n):
            if any(x is node for x in ast.walk(ch)):
                if isinstance(n, (ast.If, ast.For, ast.While, ast.Try)):
                    return False
                cur.append(ch)
    return True


def _facts(ctx):
    prog = ctx.prog
    mi = _main(prog)
    conv_fi = prog.func("oneliner", "convert_code_string")
    facts = {"mi": mi}
    conv_calls = []
    for c in _calls(mi.tree):
        r = prog.resolve_expr_static(mi, c.func) if isinstance(c.func, (ast.Name, ast.Attribute)) else None
        if r is conv_fi:
            conv_calls.append(c)
    facts["conv_calls"] = conv_calls
    facts["write_opens"] = [c for c in _calls(mi.tree) if _is_write_open(c)]
    # type=argparse.FileType("w"): the file is created/truncated by parse_args() itself
    ft = [c for c in _calls(mi.tree) if _callee_name(c) == "FileType" and c.args and isinstance(c.args[0], ast.Constant) and isinstance(c.args[0].value, str) and any(ch in c.args[0].value for ch in "wax+")]
    if ft:
        facts["write_opens"] += [c for c in _calls(mi.tree) if _callee_name(c) in ("parse_args", "parse_known_args")]
        facts["filetype"] = ft
    facts["prints"] = [c for c in _calls(mi.tree) if _callee_name(c) == "print"]
    facts["read_opens"] = [c for c in _calls(mi.tree) if _callee_name(c) == "open" and not _is_write_open(c)]
    facts["raises"] = [n for n in ast.walk(mi.tree) if isinstance(n, ast.Raise)]
    # option stores: setattr(cfg, ...) and cfg.x = ...
    stores = []
    for n in ast.walk(mi.tree):
        if isinstance(n, ast.Call) and _callee_name(n) == "setattr" and n.args and isinstance(n.args[0], ast.Name):
            stores.append((n.args[0].id, n))
        elif isinstance(n, ast.Assign):
            for t in n.targets:
                if isinstance(t, ast.Attribute) and isinstance(t.value, ast.Name):
                    stores.append((t.value.id, n))
    facts["stores"] = stores
    return facts


def rule_r1(ctx):
    rr = RuleResult("C16-R1", "all option processing, the input read and the conversion precede the open-for-write / print")
    rr.floor = 2
    f = _facts(ctx)
    mi = f["mi"]
    if len(f["conv_calls"]) != 1:
        rr.instances += 1
        rr.fail("C16-R1|__main__|conversion-call", f"{mi.rel}: expected exactly one call of oneliner.convert_code_string, found {len(f['conv_calls'])}", what="conv")
        return rr
    conv = f["conv_calls"][0]
    conv_i = _top_index(mi, conv)
    sinks = [(c, "open-for-write") for c in f["write_opens"]] + [(c, "print") for c in f["prints"]]
    if not f["write_opens"]:
        raise AnalysisError("C16-R1: no open-for-write found in __main__ (output path vanished)")
    cfg_names = {nm for nm, _n in f["stores"]}
    for sink, label in sinks:
        rr.instances += 1
        si = _top_index(mi, sink)
        what = f"{label}@{sink.lineno}"
        bad = None
        if conv_i >= si or not _is_top_level(mi, conv):
            bad = ("before-conversion", f"the {label} at line {sink.lineno} is reached before the conversion call at line {conv.lineno} (or the conversion is conditional): an error in conversion leaves a created/truncated output file")
        for nm, st in f["stores"]:
            if _top_index(mi, st) >= si:
                bad = bad or ("before-option-processing", f"option processing at line {st.lineno} follows the {label} at line {sink.lineno}: an invalid option aborts after the output was created")
        for r in f["read_opens"]:
            if _top_index(mi, r) >= si:
                bad = bad or ("before-input-read", f"the input is read (line {r.lineno}) after the {label} at line {sink.lineno}")
        for r in f["raises"]:
            if _top_index(mi, r) >= si:
                bad = bad or ("raise-after-open", f"a raise at line {r.lineno} follows the {label} at line {sink.lineno}")
        if bad:
            rr.fail(f"C16-R1|__main__|{label}|{bad[0]}", f"{mi.rel}: {bad[1]}", where=f"{mi.rel}:{sink.lineno}", what=what)
        else:
            rr.ok(what, sample={"rule": "C16-R1", "sink": f"{label} line {sink.lineno}", "dominated_by": [f"convert line {conv.lineno}"] + [f"option store line {s.lineno}" for _n, s in f["stores"]]})
    return rr


def _single_assign(mi, name):
    out = []
    for n in ast.walk(mi.tree):
        if isinstance(n, ast.Assign) and any(isinstance(t, ast.Name) and t.id == name for t in n.targets):
            out.append(n)
        elif isinstance(n, (ast.AugAssign, ast.AnnAssign)) and isinstance(n.target, ast.Name) and n.target.id == name:
            out.append(n)
        elif isinstance(n, ast.NamedExpr) and n.target.id == name:
            out.append(n)
    return out


def rule_r2(ctx):
    rr = RuleResult("C16-R2", "def-use: written/printed value = convert_code_string(read() of the input, configs=the validated object)")
    rr.floor = 3
    f = _facts(ctx)
    mi = f["mi"]
    if len(f["conv_calls"]) != 1:
        return None
    conv = f["conv_calls"][0]
    # the input reaches the parser as BYTES (or through tokenize.open): only the parser knows the
    # encoding of a script (BOM, PEP 263 cookie); a text-mode read with a fixed encoding keeps the BOM
    # as a character (SyntaxError) and mis-decodes a `# coding: latin-1` file (a different program)
    for r in f["read_opens"]:
        rr.instances += 1
        mode = None
        if len(r.args) > 1 and isinstance(r.args[1], ast.Constant):
            mode = r.args[1].value
        for kw in r.keywords:
            if kw.arg == "mode" and isinstance(kw.value, ast.Constant):
                mode = kw.value.value
        enc = [kw for kw in r.keywords if kw.arg == "encoding"]
        what = f"input-open@{r.lineno}"
        if isinstance(mode, str) and "b" in mode:
            rr.ok(what, sample={"rule": "C16-R2", "input": ast.unparse(r)[:60], "verdict": "bytes: the parser detects the encoding"})
        elif isinstance(r.func, ast.Attribute) and r.func.attr == "open" and ast.unparse(r.func.value) == "tokenize":
            rr.ok(what)
        else:
            rr.fail(
                "C16-R2|__main__|input-decoding",
                f"{mi.rel}:{r.lineno}: the script is read in text mode ({ast.unparse(r)[:70]}): a file with a UTF-8 BOM is refused with `SyntaxError: invalid non-printable character U+FEFF`, a `# -*- coding: latin-1 -*-` file raises UnicodeDecodeError or is converted as a different program (`print(len(\"\u00e9\"))` prints 1 instead of 2), although `python FILE` and the library call on the file's bytes handle both",
                where=f"{mi.rel}:{r.lineno}", what=what,
            )
    # the variable holding the result
    res_assign = [n for n in ast.walk(mi.tree) if isinstance(n, ast.Assign) and n.value is conv]
    rr.instances += 1
    if len(res_assign) != 1 or not isinstance(res_assign[0].targets[0], ast.Name):
        rr.fail("C16-R2|__main__|result-variable", f"{mi.rel}: the result of convert_code_string is not stored in one variable", what="result")
        return rr
    res = res_assign[0].targets[0].id
    if len(_single_assign(mi, res)) != 1:
        rr.fail("C16-R2|__main__|result-modified", f"{mi.rel}: `{res}` is reassigned after the conversion: the written text is not the API result", what="result")
    else:
        rr.ok("result-single-assignment")
    # sinks
    writes = [c for c in _calls(mi.tree) if _callee_name(c) in ("write", "writelines", "write_text")]
    for c in writes + f["prints"]:
        rr.instances += 1
        what = f"sink@{c.lineno}"
        label = _callee_name(c)
        ok = len(c.args) == 1 and isinstance(c.args[0], ast.Name) and c.args[0].id == res
        if label == "print":
            ok = ok and not any(kw.arg in ("file", "end", "sep") for kw in c.keywords)
        if ok:
            rr.ok(what, sample={"rule": "C16-R2", "sink": ast.unparse(c)[:50], "value": res})
        else:
            rr.fail(f"C16-R2|__main__|{label}-argument", f"{mi.rel}:{c.lineno}: `{ast.unparse(c)[:70]}` does not emit exactly the conversion result `{res}`", where=f"{mi.rel}:{c.lineno}", what=what)
    if not writes:
        rr.instances += 1
        rr.fail("C16-R2|__main__|no-write", f"{mi.rel}: the output file is opened but the result is never written to it", what="write")
    # the write goes to the file opened from args.output
    for w in f["write_opens"]:
        if _callee_name(w) in ("parse_args", "parse_known_args"):
            continue
        rr.instances += 1
        a0 = w.args[0] if w.args else None
        if isinstance(a0, ast.Attribute) and a0.attr in ("output", "o"):
            rr.ok(f"open@{w.lineno}")
        else:
            rr.fail("C16-R2|__main__|output-path", f"{mi.rel}:{w.lineno}: the output is not opened at the path given by -o ({ast.unparse(a0) if a0 is not None else ''})", what=f"open@{w.lineno}")
        # the text is one expression without an encoding cookie: `python OUT` reads it as UTF-8, so that
        # is how it has to be written - a constant, not the locale default and not the script's encoding
        rr.instances += 1
        mode = w.args[1].value if len(w.args) > 1 and isinstance(w.args[1], ast.Constant) else None
        for kw in w.keywords:
            if kw.arg == "mode" and isinstance(kw.value, ast.Constant):
                mode = kw.value.value
        enc = [kw.value for kw in w.keywords if kw.arg == "encoding"]
        if len(w.args) > 3:
            enc.append(w.args[3])
        what_e = f"open@{w.lineno}|encoding"
        if isinstance(mode, str) and "b" in mode:
            rr.ok(what_e, sample={"rule": "C16-R2", "output": "binary mode (the bytes written are judged at the write)"})
        elif len(enc) == 1 and isinstance(enc[0], ast.Constant) and isinstance(enc[0].value, str) and enc[0].value.lower().replace("-", "").replace("_", "") == "utf8":
            rr.ok(what_e, sample={"rule": "C16-R2", "output_encoding": enc[0].value})
        else:
            rr.fail(
                "C16-R2|__main__|output-encoding",
                f"{mi.rel}:{w.lineno}: the output file is opened with encoding `{ast.unparse(enc[0]) if enc else 'the locale default'}`, not with the constant UTF-8: the written text has no encoding cookie, so `python OUT` decodes it as UTF-8; for a `# coding: latin-1` script the non-ASCII characters of literals are stored as single bytes (OUT no longer decodes to the API text, SyntaxError 'Non-UTF-8 code'), a BOM script gets a BOM the API text does not have",
                where=f"{mi.rel}:{w.lineno}", what=what_e,
            )
    # script argument
    rr.instances += 1
    s_arg = conv.args[0] if conv.args else None
    what = "script"
    ok = False
    if isinstance(s_arg, ast.Name):
        sa = _single_assign(mi, s_arg.id)
        if len(sa) == 1 and isinstance(sa[0], ast.Assign) and isinstance(sa[0].value, ast.Call) and _callee_name(sa[0].value) == "read" and not sa[0].value.args:
            recv = sa[0].value.func.value
            # the receiver is the as-name of a with-open of the input filename
            for n in ast.walk(mi.tree):
                if isinstance(n, ast.With):
                    for item in n.items:
                        if isinstance(item.optional_vars, ast.Name) and isinstance(recv, ast.Name) and item.optional_vars.id == recv.id and isinstance(item.context_expr, ast.Call) and _callee_name(item.context_expr) == "open":
                            a0 = item.context_expr.args[0] if item.context_expr.args else None
                            if isinstance(a0, ast.Attribute) and "input" in a0.attr:
                                ok = True
    if ok:
        rr.ok(what, sample={"rule": "C16-R2", "script": "unmodified read() of open(args.input_filename)"})
    else:
        rr.fail("C16-R2|__main__|script-argument", f"{mi.rel}:{conv.lineno}: the first argument of convert_code_string is not the unmodified read() of the input file", what=what)
    # configs argument
    rr.instances += 1
    what = "configs"
    cfg = None
    for kw in conv.keywords:
        if kw.arg == "configs":
            cfg = kw.value
    if cfg is None and len(conv.args) >= 3:
        cfg = conv.args[2]
    stores = {nm for nm, _n in f["stores"]}
    if isinstance(cfg, ast.Name) and stores == {cfg.id} and len(_single_assign(mi, cfg.id)) == 1:
        rr.ok(what, sample={"rule": "C16-R2", "configs": cfg.id, "written_by": sorted({type(n).__name__ + "@" + str(n.lineno) for _nm, n in f["stores"]})})
    else:
        rr.fail("C16-R2|__main__|configs-argument", f"{mi.rel}:{conv.lineno}: the options object passed to convert_code_string ({ast.unparse(cfg) if cfg is not None else 'none: defaults'}) is not the one object the -C loop and --unparser write to ({sorted(stores)})", what=what)
    return rr


def _descriptor_classes(prog):
    return [c for c in prog.all_classes() if "__set__" in c.methods]


def _config_model(prog):
    """(Configs ClassInfo, descriptor names, names bound in the class body in order, config_names value or None)"""
    desc = _descriptor_classes(prog)
    for ci in prog.all_classes():
        names = []
        dnames = []
        for st in ci.node.body:
            if isinstance(st, ast.Assign) and len(st.targets) == 1 and isinstance(st.targets[0], ast.Name):
                nm = st.targets[0].id
                if isinstance(st.value, ast.Call):
                    r = prog.resolve_expr_static(ci.module, st.value.func) if isinstance(st.value.func, (ast.Name, ast.Attribute)) else None
                    if r in desc:
                        dnames.append(nm)
                names.append((nm, st))
            elif isinstance(st, ast.FunctionDef):
                names.append((st.name, st))
        if dnames:
            return ci, dnames, names
    raise AnalysisError("C16-R3: no class with option descriptors found")


def _eval_accepted(prog, ci, names, expr_name):
    """Static model of a class-body expression that enumerates locals(): the names bound earlier
    in the class body that pass the filter."""
    target = None
    earlier = []
    for nm, st in names:
        if nm == expr_name:
            target = st
            break
        earlier.append(nm)
    if target is None:
        return _accepted_from_decorator(prog, ci, names, expr_name)
    v = target.value
    # tuple(...)/list(...)/set(...) wrappers
    while isinstance(v, ast.Call) and isinstance(v.func, ast.Name) and v.func.id in ("tuple", "list", "set", "frozenset", "sorted") and len(v.args) == 1:
        v = v.args[0]
    if isinstance(v, (ast.Tuple, ast.List, ast.Set)) and all(isinstance(e, ast.Constant) for e in v.elts):
        return {e.value for e in v.elts}
    if isinstance(v, (ast.GeneratorExp, ast.ListComp, ast.SetComp)) and len(v.generators) == 1:
        g = v.generators[0]
        it = g.iter
        over_locals = isinstance(it, ast.Call) and isinstance(it.func, ast.Name) and it.func.id in ("locals", "vars", "dir")
        if over_locals and isinstance(g.target, ast.Name) and isinstance(v.elt, ast.Name) and v.elt.id == g.target.id:
            out = set()
            for nm in ["__module__", "__qualname__"] + earlier:
                env = {g.target.id: nm}
                keep = True
                for cond in g.ifs:
                    try:
                        keep = keep and bool(_eval_filter(cond, env))
                    except Exception:
                        return None
                if keep:
                    out.add(nm)
            return out
    return None


def _accepted_from_decorator(prog, ci, names, attr):
    """`@deco class Configs` where deco does `cls.<attr> = tuple(n for n, v in vars(cls).items() if
    isinstance(v, <Descriptor>))`: the names bound in the class body to descriptor instances."""
    desc = _descriptor_classes(prog)
    for d in ci.node.decorator_list:
        r = prog.resolve_expr_static(ci.module, d) if isinstance(d, (ast.Name, ast.Attribute)) else None
        fn = getattr(r, "node", None)
        if not isinstance(fn, ast.FunctionDef) or not fn.args.args:
            continue
        cls_param = fn.args.args[0].arg
        for st in ast.walk(fn):
            if not (isinstance(st, ast.Assign) and len(st.targets) == 1 and isinstance(st.targets[0], ast.Attribute) and st.targets[0].attr == attr and isinstance(st.targets[0].value, ast.Name) and st.targets[0].value.id == cls_param):
                continue
            v = st.value
            while isinstance(v, ast.Call) and isinstance(v.func, ast.Name) and v.func.id in ("tuple", "list", "set", "frozenset", "sorted") and len(v.args) == 1:
                v = v.args[0]
            if not (isinstance(v, (ast.GeneratorExp, ast.ListComp, ast.SetComp)) and len(v.generators) == 1):
                return None
            g = v.generators[0]
            it_txt = ast.unparse(g.iter).replace(" ", "")
            if it_txt not in (f"vars({cls_param}).items()", f"{cls_param}.__dict__.items()"):
                return None
            if not (isinstance(g.target, ast.Tuple) and len(g.target.elts) == 2 and all(isinstance(e, ast.Name) for e in g.target.elts)):
                return None
            key_var, val_var = g.target.elts[0].id, g.target.elts[1].id
            if not (isinstance(v.elt, ast.Name) and v.elt.id == key_var):
                return None
            # the only filter understood: isinstance(value, <descriptor class>)
            if len(g.ifs) != 1:
                return None
            c = g.ifs[0]
            if not (isinstance(c, ast.Call) and isinstance(c.func, ast.Name) and c.func.id == "isinstance" and len(c.args) == 2 and isinstance(c.args[0], ast.Name) and c.args[0].id == val_var):
                return None
            k = prog.resolve_expr_static(r.module, c.args[1]) if isinstance(c.args[1], (ast.Name, ast.Attribute)) else None
            if k not in desc:
                return None
            out = set()
            for nm, st2 in names:
                if isinstance(st2, ast.Assign) and isinstance(st2.value, ast.Call):
                    rr_ = prog.resolve_expr_static(ci.module, st2.value.func) if isinstance(st2.value.func, (ast.Name, ast.Attribute)) else None
                    if rr_ is k or (rr_ in desc and k in getattr(rr_, "mro", lambda: [])()):
                        out.add(nm)
            return out
    return None


def _eval_filter(cond, env):
    if isinstance(cond, ast.UnaryOp) and isinstance(cond.op, ast.Not):
        return not _eval_filter(cond.operand, env)
    if isinstance(cond, ast.BoolOp):
        vals = [_eval_filter(v, env) for v in cond.values]
        return all(vals) if isinstance(cond.op, ast.And) else any(vals)
    if isinstance(cond, ast.Call) and isinstance(cond.func, ast.Attribute) and isinstance(cond.func.value, ast.Name) and cond.func.value.id in env:
        s = env[cond.func.value.id]
        args = [a.value for a in cond.args if isinstance(a, ast.Constant)]
        return getattr(s, cond.func.attr)(*args)
    if isinstance(cond, ast.Compare) and len(cond.ops) == 1 and isinstance(cond.left, ast.Name) and cond.left.id in env and isinstance(cond.comparators[0], ast.Constant):
        l, r = env[cond.left.id], cond.comparators[0].value
        return {ast.Eq: l == r, ast.NotEq: l != r}[type(cond.ops[0])]
    raise ValueError("filter")


def rule_r3(ctx):
    rr = RuleResult("C16-R3", "-C accepts exactly the option descriptors; values are validated by the descriptor before being stored")
    rr.floor = 3
    prog = ctx.prog
    mi = _main(prog)
    ci, dnames, names = _config_model(prog)
    # the guard of the -C loop
    loops = [n for n in mi.tree.body if isinstance(n, ast.For)]
    guard = None
    loop = None
    for lp in loops:
        if any(isinstance(c, ast.Call) and _callee_name(c) == "setattr" for c in ast.walk(lp)):
            loop = lp
            for st in ast.walk(lp):
                if isinstance(st, ast.If) and any(isinstance(x, ast.Raise) for x in st.body):
                    t = st.test
                    txt = ast.unparse(t)
                    if "hasattr" in txt or " in " in txt or "not in" in txt:
                        if any(isinstance(x, ast.Name) and "name" in x.id for x in ast.walk(t)):
                            guard = st
    rr.instances += 1
    what = "-C|name-guard"
    if loop is None:
        raise AnalysisError("C16-R3: the -C processing loop was not found")
    if guard is None and isinstance(loop.iter, ast.Call) and isinstance(loop.iter.func, ast.Name) and loop.iter.func.id in mi.functions:
        raise AnalysisError(f"C16-R3: the -C arguments are parsed by `{loop.iter.func.id}(...)`, a helper the loop iterates over: where unknown names are refused lies in that helper, which this rule does not follow")
    if guard is None:
        rr.fail("C16-R3|__main__|no-name-guard", f"{mi.rel}: the -C loop has no guard that raises for an unknown option name", what=what)
    else:
        t = guard.test
        neg = False
        if isinstance(t, ast.UnaryOp) and isinstance(t.op, ast.Not):
            t, neg = t.operand, True
        accepted = None
        how = ast.unparse(guard.test)
        if isinstance(t, ast.Call) and _callee_name(t) == "hasattr":
            # hasattr(instance, name): every attribute of the instance, its class and object
            accepted = set(dnames) | {nm for nm, _s in names} | set(dir(object))
            how += " (accepts every attribute of the object)"
        elif isinstance(t, ast.Compare) and len(t.ops) == 1 and isinstance(t.ops[0], (ast.In, ast.NotIn)):
            neg = isinstance(t.ops[0], ast.NotIn)
            coll = t.comparators[0]
            if isinstance(coll, ast.Attribute):
                accepted = _eval_accepted(prog, ci, names, coll.attr)
            elif isinstance(coll, (ast.Tuple, ast.List, ast.Set)) and all(isinstance(e, ast.Constant) for e in coll.elts):
                accepted = {e.value for e in coll.elts}
            elif isinstance(coll, ast.Name):
                # a module-level name: what is it bound to?  A STRING (", ".join(names), a help text)
                # makes `name in X` a substring test: every piece of the text is accepted
                defs = _single_assign(mi, coll.id)
                if len(defs) == 1 and isinstance(defs[0], ast.Assign):
                    v = defs[0].value
                    is_text = (
                        (isinstance(v, ast.Call) and isinstance(v.func, ast.Attribute) and v.func.attr in ("join", "format", "strip", "lower", "upper"))
                        or isinstance(v, ast.JoinedStr) or (isinstance(v, ast.Constant) and isinstance(v.value, str))
                        or (isinstance(v, ast.BinOp) and isinstance(v.op, (ast.Add, ast.Mod)) and any(isinstance(x, ast.Constant) and isinstance(x.value, str) for x in ast.walk(v)))
                    )
                    if is_text:
                        rr.fail(
                            "C16-R3|__main__|accepted-names|substring-test",
                            f"{mi.rel}:{guard.lineno}: the option name is tested with `{how}`, where `{coll.id}` is TEXT (`{ast.unparse(v)[:60]}`): `in` on a string is a substring test, so every piece of that text - `unparse`, `wrapper`, `if`, the empty name - is accepted as an option name and silently ignored (exit 0, output written)",
                            where=f"{mi.rel}:{guard.lineno}", what=what,
                        )
                        accepted = False
                    elif isinstance(v, ast.Attribute):
                        accepted = _eval_accepted(prog, ci, names, v.attr)
                    elif isinstance(v, (ast.Tuple, ast.List, ast.Set)) and all(isinstance(e, ast.Constant) for e in v.elts):
                        accepted = {e.value for e in v.elts}
        if accepted is False:
            rr.floor = 1
            return rr
        if accepted is None:
            raise AnalysisError(f"C16-R3: cannot model the set of names accepted by `{how}`")
        if not neg:
            rr.fail("C16-R3|__main__|guard-polarity", f"{mi.rel}:{guard.lineno}: the guard raises for KNOWN names", what=what)
        elif accepted != set(dnames):
            extra = sorted(accepted - set(dnames))
            missing = sorted(set(dnames) - accepted)
            rr.fail(
                "C16-R3|__main__|accepted-names",
                f"{mi.rel}:{guard.lineno}: `{how}` accepts {('also ' + str(extra[:4]) + ('...' if len(extra) > 4 else '')) if extra else ''}{(' but not ' + str(missing)) if missing else ''}; the options are {sorted(dnames)} (`-C config_names=x` exits 0 and clobbers the attribute)",
                where=f"{mi.rel}:{guard.lineno}", what=what,
            )
        else:
            rr.ok(what, sample={"rule": "C16-R3", "guard": how, "accepted": sorted(accepted)})
    # stores go through the descriptor
    rr.instances += 1
    what = "-C|store"
    sets = [c for c in ast.walk(loop) if isinstance(c, ast.Call) and _callee_name(c) == "setattr"]
    raw = [n for n in ast.walk(loop) if isinstance(n, ast.Attribute) and n.attr == "__dict__"]
    if len(sets) != 1 or raw:
        rr.fail("C16-R3|__main__|store-bypasses-descriptor", f"{mi.rel}: option values are not stored with one setattr() on the options object (validation by the descriptor is bypassed)", what=what)
    else:
        rr.ok(what)
    # the descriptor validates before storing
    for dc in _descriptor_classes(prog):
        fi = dc.methods["__set__"]
        rr.instances += 1
        what = f"{dc.name}.__set__"
        params = [a.arg for a in fi.node.args.args]
        val = params[2] if len(params) > 2 else "value"
        ok = _validates_before_store(fi.node, val)
        if ok is True:
            rr.ok(what, sample={"rule": "C16-R3", "descriptor": what, "verdict": "membership test raises before the store"})
        else:
            rr.fail(f"C16-R3|{dc.name}.__set__|{ok}", f"{fi.where()}: an illegal option value is not rejected before it is stored ({ok})", where=fi.where(), what=what)
    return rr


def _validates_before_store(fn, val):
    """In the list-typed branch: `if value not in <list>: raise` must dominate every store."""
    def stores_in(stmts):
        out = []
        for s in stmts:
            if isinstance(s, ast.Assign) and any(isinstance(t, (ast.Attribute, ast.Subscript)) for t in s.targets):
                out.append(s)
            elif isinstance(s, ast.AugAssign) and isinstance(s.target, (ast.Attribute, ast.Subscript)):
                out.append(s)
            elif isinstance(s, ast.Expr) and isinstance(s.value, ast.Call) and _callee_name(s.value) in ("__setitem__", "setattr", "update"):
                out.append(s)
        return out

    list_branch = None
    for n in fn.body:
        if isinstance(n, ast.If) and "isinstance" in ast.unparse(n.test) and "list" in ast.unparse(n.test):
            list_branch = n
    if list_branch is None:
        delegated = [c for c in ast.walk(fn) if isinstance(c, ast.Call) and isinstance(c.func, ast.Attribute) and isinstance(c.func.value, ast.Name) and c.func.value.id == "self"
                     and any(isinstance(a, ast.Name) and a.id == val for a in c.args)]
        if delegated:
            raise AnalysisError(f"C16-R3: the descriptor hands the value to `self.{delegated[0].func.attr}(...)`: the validation lies in that method, which this rule does not follow")
        return "no-list-branch"
    checks = [s for s in list_branch.body if isinstance(s, ast.If) and isinstance(s.test, ast.Compare) and isinstance(s.test.ops[0], ast.NotIn) and isinstance(s.test.left, ast.Name) and s.test.left.id == val and any(isinstance(x, ast.Raise) for x in s.body)]
    if not checks:
        return "no-membership-raise"
    chk = checks[0]
    # every statement of the check body path must end in raise
    if not isinstance(chk.body[-1], ast.Raise):
        return "membership-check-does-not-raise"
    # no store before the check (in the branch or before the branch)
    idx = fn.body.index(list_branch)
    if stores_in(fn.body[:idx]) or stores_in(list_branch.body[: list_branch.body.index(chk)]):
        return "store-before-check"
    return True


def _instance_store(st, inst, val):
    """Does the statement store `val` into per-instance storage of `inst`?  Returns the key text."""
    if isinstance(st, ast.Assign) and isinstance(st.value, ast.Name) and st.value.id == val:
        for t in st.targets:
            if isinstance(t, ast.Subscript):
                base = ast.unparse(t.value)
                if base in (f"{inst}.__dict__", f"vars({inst})"):
                    return ast.unparse(t.slice)
                if any(isinstance(x, ast.Name) and x.id == inst for x in ast.walk(t)):
                    return "?" + ast.unparse(t)  # some other table keyed by the instance (C10-R1 judges it)
    if isinstance(st, ast.Expr) and isinstance(st.value, ast.Call):
        c = st.value
        nm = _callee_name(c)
        if nm in ("setattr", "__setattr__") and len(c.args) >= 2 and ast.unparse(c.args[-1]) == val:
            if nm == "setattr" and ast.unparse(c.args[0]) != inst:
                return None
            return ast.unparse(c.args[-2])
        if nm == "__setitem__" and isinstance(c.func, ast.Attribute) and ast.unparse(c.func.value) in (f"{inst}.__dict__", f"vars({inst})") and len(c.args) == 2 and ast.unparse(c.args[1]) == val:
            return ast.unparse(c.args[0])
    return None


def _store_states(stmts, states, inst, val, exits, keys):
    """Forward must-analysis: `states` is the set of 'value stored?' facts with which control can
    reach the block; returns the set at its end.  Normal exits through `return` go to `exits`."""
    for st in stmts:
        if not states:
            return states
        k = _instance_store(st, inst, val)
        if k is not None:
            keys.add(k)
            states = {True}
        elif isinstance(st, ast.If):
            a = _store_states(st.body, set(states), inst, val, exits, keys)
            b = _store_states(st.orelse, set(states), inst, val, exits, keys)
            states = a | b
        elif isinstance(st, ast.Raise):
            return set()
        elif isinstance(st, ast.Return):
            exits |= states
            return set()
        elif isinstance(st, (ast.For, ast.While, ast.AsyncFor)):
            body = _store_states(st.body, set(states), inst, val, exits, keys)
            states = _store_states(st.orelse, states | body, inst, val, exits, keys)
        elif isinstance(st, (ast.With, ast.AsyncWith)):
            states = _store_states(st.body, states, inst, val, exits, keys)
        elif isinstance(st, ast.Try):
            body = _store_states(st.body, set(states), inst, val, exits, keys)
            hs = set()
            for h in st.handlers:
                hs |= _store_states(h.body, states | body, inst, val, exits, keys)
            states = _store_states(st.orelse, body, inst, val, exits, keys) | hs
            if st.finalbody:
                states = _store_states(st.finalbody, states, inst, val, exits, keys)
    return states


def rule_r4(ctx):
    rr = RuleResult("C16-R4", "option descriptor: every accepted assignment is stored (the last -C wins), under the key __get__ reads")
    rr.floor = 1
    for dc in _descriptor_classes(ctx.prog):
        fi = dc.methods["__set__"]
        rr.instances += 1
        params = [a.arg for a in fi.node.args.posonlyargs + fi.node.args.args]
        if len(params) != 3:
            raise AnalysisError(f"C16-R4: {fi.where()}: __set__ does not have the descriptor signature")
        _self, inst, val = params
        rebinds = [n for n in ast.walk(fi.node) if isinstance(n, ast.Name) and isinstance(n.ctx, ast.Store) and n.id in (inst, val)]
        if rebinds:
            raise AnalysisError(f"C16-R4: {fi.where()}: __set__ rebinds its parameter {rebinds[0].id}")
        exits, keys = set(), set()
        end = _store_states(fi.node.body, {False}, inst, val, exits, keys)
        normal = end | exits
        what = f"{dc.name}.__set__|stores-on-every-normal-exit"
        if not keys:
            # storage outside the instance is C10-R1's business; nothing to pair here
            rr.fail(f"C16-R4|{dc.name}.__set__|no-instance-store", f"{fi.where()}: __set__ never stores the value in the instance", where=fi.where(), what=what)
            continue
        foreign = {k for k in keys if k.startswith("?")}
        if False in normal:
            rr.fail(
                f"C16-R4|{dc.name}.__set__|conditional-store",
                f"{fi.where()}: some path through __set__ returns normally without storing the value in the instance: an accepted assignment is silently dropped, so an earlier value of the option survives (`-C x=other -C x=default` keeps `other`) and the command line converts with options the library call was not given",
                where=fi.where(), what=what,
            )
        else:
            rr.ok(what, sample={"rule": "C16-R4", "descriptor": f"{dc.name}.__set__", "keys": sorted(keys), "verdict": "every non-raising path stores the value"})
        # the reader uses the same key
        g = dc.methods.get("__get__")
        if g is None or foreign:
            continue
        rr.instances += 1
        what = f"{dc.name}.__get__|same-key"
        gparams = [a.arg for a in g.node.args.posonlyargs + g.node.args.args]
        ginst = gparams[1] if len(gparams) > 1 else "instance"
        read_keys = set()
        for n in ast.walk(g.node):
            if isinstance(n, ast.Call) and _callee_name(n) in ("get", "getattr", "pop", "__getitem__") and n.args:
                if _callee_name(n) == "getattr":
                    if ast.unparse(n.args[0]) == ginst and len(n.args) > 1:
                        read_keys.add(ast.unparse(n.args[1]))
                elif isinstance(n.func, ast.Attribute) and ast.unparse(n.func.value) in (f"{ginst}.__dict__", f"vars({ginst})"):
                    read_keys.add(ast.unparse(n.args[0]))
            elif isinstance(n, ast.Subscript) and isinstance(n.ctx, ast.Load) and ast.unparse(n.value) in (f"{ginst}.__dict__", f"vars({ginst})"):
                read_keys.add(ast.unparse(n.slice))
        if not read_keys:
            raise AnalysisError(f"C16-R4: {g.where()}: cannot find where __get__ reads the instance storage")
        if read_keys != keys:
            rr.fail(f"C16-R4|{dc.name}|key-mismatch", f"{g.where()}: __get__ reads key(s) {sorted(read_keys)} but __set__ stores under {sorted(keys)}", where=g.where(), what=what)
        else:
            rr.ok(what)
    return rr


def rule_c02r5(ctx):
    """"... and that text evaluates like the script": the library hands back the unparser's text
    unaltered (shared rule C02-R5)."""
    from .c02 import rule_r5 as r

    return r(ctx)


RULES = [("C16-R1", rule_r1), ("C16-R2", rule_r2), ("C16-R3", rule_r3), ("C16-R4", rule_r4), ("C02-R5", rule_c02r5)]
