"""bug2: the `while` template calls `itertools.takewhile(..., itertools.count())` through an ordinary
script-level global `itertools` that the converted text binds itself (`(itertools := __import__('itertools'))`).
Same mechanism as bug1 (PendingModule._insert_import_lib), other call site (PendingWhile):
  A. a function that contains a `while` loop and ALSO imports itertools itself (after the loop / in a branch):
     `itertools` becomes a local of the generated lambda -> UnboundLocalError at the loop
  B. the name `itertools` appears in the script's globals
  C. a parameter / local variable called `itertools` captures the helper -> AttributeError
  D. the script rebinds the global `itertools` -> every later `while` fails
"""
import sys, os, io, itertools, contextlib

sys.path.insert(0, os.environ["OLREPO"])
import oneliner
from oneliner import Configs

SCRIPTS = {
    "A function with a while loop imports itertools later": (
        "def f(n):\n"
        "    while n > 0:\n"
        "        n -= 1\n"
        "    if n == 0:\n"
        "        import itertools\n"
        "        return list(itertools.repeat(n, 2))\n"
        "print(f(2))\n"
    ),
    "B helper leaks into globals": (
        "n = 0\n"
        "while n < 2:\n"
        "    n += 1\n"
        "print(sorted(k for k in globals() if not k.startswith('__')))\n"
    ),
    "C parameter named itertools": (
        "def f(itertools):\n"
        "    n = 0\n"
        "    while n < itertools:\n"
        "        n += 1\n"
        "    return n\n"
        "print(f(3))\n"
    ),
    "D global itertools rebound by the script": (
        "from itertools import count as itertools\n"
        "n = 0\n"
        "while n < 2:\n"
        "    n += 1\n"
        "print(n, next(itertools(7)))\n"
    ),
}


def combos():
    for u, w, i in itertools.product(
        ["ast.unparse", "oneliner"], ["list", "chain_call"], ["if_expr", "short_circuit"]
    ):
        c = Configs()
        c.unparser, c.expr_wrapper, c.if_style = u, w, i
        yield (u, w, i), c


def run(kind, text):
    ns = {"__name__": "__main__"}
    out = io.StringIO()
    exc = None
    try:
        with contextlib.redirect_stdout(out):
            if kind == "exec":
                exec(compile(text, "<orig>", "exec"), ns)
            else:
                eval(compile(text.strip(), "<conv>", "eval"), ns)
    except BaseException as e:  # noqa
        exc = "%s: %s" % (type(e).__name__, e)
    names = sorted(k for k in ns if not k.startswith("__") and k != "importlib")  # importlib: see bug1
    return out.getvalue(), exc, names


bad = 0
for title, src in SCRIPTS.items():
    expected = run("exec", src)
    for name, cfg in combos():
        try:
            text = oneliner.convert_code_string(src, configs=cfg)
        except BaseException as e:  # noqa
            print("[%s] %s: conversion failed: %r" % (title, name, e))
            bad += 1
            continue
        got = run("eval", text)
        if got != expected:
            bad += 1
            print("[%s] %s" % (title, "/".join(name)))
            print("    expected stdout=%r exc=%r globals=%r" % expected)
            print("    observed stdout=%r exc=%r globals=%r" % got)

print("bug2 (helper global `itertools`):", "DEFECT PRESENT in %d script/option pairs" % bad if bad else "not reproduced")
sys.exit(1 if bad else 0)
