"""bug3: an int literal with more than 4300 decimal digits (written in hex, which the parser accepts without limit)
crashes the conversion with an internal ValueError, all 8 option combinations.

unparse_Constant() (and ast.unparse) use repr(int), which is subject to sys.get_int_max_str_digits().
"""
import contextlib
import io
import itertools
import os
import sys

sys.path.insert(0, os.environ["OLREPO"])
import oneliner
from oneliner import Configs

SRC = "x = 0x" + "f" * 3600 + "\nprint(x % 1000007, x.bit_length())\n"


def run(src, fn):
    out = io.StringIO()
    with contextlib.redirect_stdout(out):
        fn(src)
    return out.getvalue()


expected = run(SRC, lambda s: exec(s, {}))
bad = 0
for up, ew, ifs in itertools.product(["ast.unparse", "oneliner"], ["list", "chain_call"], ["if_expr", "short_circuit"]):
    c = Configs()
    c.unparser, c.expr_wrapper, c.if_style = up, ew, ifs
    try:
        text = oneliner.convert_code_string(SRC, configs=c)
        got = run(text, lambda s: eval(s, {}))
        res = "ok" if got == expected else "DIFF %r != %r" % (got, expected)
    except Exception as e:  # noqa
        res = "%s: %s" % (type(e).__name__, str(e)[:90])
    if res != "ok":
        bad += 1
        print("%-12s %-10s %-13s -> %s" % (up, ew, ifs, res))
print("bug3:", "DEFECT PRESENT (%d failing runs)" % bad if bad else "not reproduced")
sys.exit(1 if bad else 0)
