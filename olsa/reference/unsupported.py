"""What the converter supports (README "Limitations" + property C08) - written from
the documentation, not derived from the repository's tables.

Supported statement kinds: everything else in ast.stmt.__subclasses__() of the
analysing interpreter is unsupported by default (so a statement kind added by a
future Python is unsupported until listed here)."""

SUPPORTED_STMTS = (
    "Module", "Expr", "If", "While", "For", "Break", "Continue", "Pass", "Assign", "AnnAssign",
    "AugAssign", "FunctionDef", "Return", "Global", "Nonlocal", "ClassDef", "Import", "ImportFrom",
)

# README: "yield", "await/async" are not supported; these are expression-level and
# bypass the statement dispatch table.
UNSUPPORTED_EXPRS = ("Yield", "YieldFrom", "Await")

# fields that a builder may legitimately not read, with the reason
EXEMPT_FIELDS = {
    ("FunctionDef", "returns"): "annotation: metadata, excluded by C01/C11",
    ("FunctionDef", "type_params"): "3.12 type-parameter scope: generate_nsp fails with 'Namespace not found' (a rejection)",
    ("ClassDef", "type_params"): "3.12 type-parameter scope: rejected as above",
    ("AnnAssign", "annotation"): "annotation: metadata",
    ("AnnAssign", "simple"): "only affects how the annotation is stored",
    ("Global", "names"): "consumed by symtable (scope analysis), the statement has no run-time effect",
    ("Nonlocal", "names"): "consumed by symtable",
    ("arg", "annotation"): "annotation: metadata",
    ("arg", "type_comment"): "comment",
    ("Module", "type_ignores"): "comment",
    ("FunctionDef", "name"): None,
}
EXEMPT_FIELDS = {k: v for k, v in EXEMPT_FIELDS.items() if v is not None}
