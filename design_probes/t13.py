from p import run
run("class B:\n    def __iadd__(self, v):\n        return 999\nx = B()\nx += 1\nprint(x)\nl=[1]; m=l; l+=[2]; print(m)\ny=1; y+=2; print(y)", False)
run("def f():\n    n=0\n    def g():\n        nonlocal n\n        n += 5\n    g(); g()\n    return n\nprint(f())\nclass A:\n    c = 1\n    c *= 7\nprint(A.c)\nz=2\ndef h():\n    global z\n    z **= 3\nh(); print(z)", True)
run("class A:\n    def __class_getitem__(cls, item):\n        return (cls.__name__, item)\nprint(A[int])", True)
