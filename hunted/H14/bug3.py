import itertools, json, os, subprocess, sys

OLREPO = os.environ["OLREPO"]
sys.path.insert(0, OLREPO)
import oneliner  # noqa: E402  (checks that the package is importable)

PYENV = "/root/.pyenv/versions/%s/bin/python"
HOSTS = [v for v in ("3.10.13", "3.11.7", "3.12.1", "3.13.0") if os.path.exists(PYENV % v)]
RUNTIMES = [v for v in ("3.8.18", "3.9.18", "3.10.13", "3.11.7", "3.12.1", "3.13.0") if os.path.exists(PYENV % v)]
CURRENT = "current(%d.%d)" % sys.version_info[:2]
if not HOSTS:  # no pyenv interpreters: only the interpreter that runs this file
    HOSTS = RUNTIMES = [CURRENT]
CFGS = list(itertools.product(["ast.unparse", "oneliner"], ["list", "chain_call"], ["if_expr", "short_circuit"]))

_CONV = r'''
import sys, json
sys.path.insert(0, sys.argv[1])
import oneliner
src, cfgs = json.loads(sys.stdin.read())
out = []
for u, w, i in cfgs:
    c = oneliner.Configs(); c.unparser, c.expr_wrapper, c.if_style = u, w, i
    try: out.append(["ok", oneliner.convert_code_string(src, configs=c)])
    except BaseException as e: out.append(["err", type(e).__name__ + ": " + str(e)])
print(json.dumps(out))
'''
_RUN = r'''
import sys, io, json
kind, code = json.loads(sys.stdin.read())
buf = io.StringIO(); old = sys.stdout; sys.stdout = buf
try:
    ns = {"__name__": "__main__"}
    if kind == "exec": exec(compile(code, "<src>", "exec"), ns)
    else: eval(compile(code, "<ol>", "eval"), ns)
    res = ["ok", buf.getvalue()]
except BaseException as e:
    res = ["exc", type(e).__name__ + ": " + str(e)]
sys.stdout = old
print(json.dumps(res))
'''


def py(version):
    """interpreter for a version; the current interpreter when it has the same major.minor"""
    return sys.executable if version == CURRENT else PYENV % version


def convert_on(host, src, cfgs=CFGS):
    p = subprocess.run([py(host), "-c", _CONV, OLREPO], input=json.dumps([src, cfgs]), capture_output=True, text=True)
    if p.returncode:
        return [["err", "host process failed: " + p.stderr[-300:]]] * len(cfgs)
    return json.loads(p.stdout)


def run_on(rt, kind, code):
    p = subprocess.run([py(rt), "-c", _RUN], input=json.dumps([kind, code]), capture_output=True, text=True)
    if p.returncode:
        return ["exc", "runtime process failed: " + p.stderr[-300:]]
    return json.loads(p.stdout)


# ---------------------------------------------------------------------------
# bug3 (runtime specific, 3.12 / 3.13): every `for` / `while` statement becomes a list
# comprehension, so ordinary comprehensions of a loop body become NESTED comprehensions.
# CPython 3.12.1 and 3.13.0 (PEP 709 inlining) mis-compile nested comprehensions in which a
# name is the iteration variable of one inner comprehension and an ordinary variable
# elsewhere in the element: UnboundLocalError / NameError.  The source (a real loop) runs on
# every version, the converted text runs on 3.8 - 3.11 only.
SCRIPTS = {
    "B1 local read in a sibling comprehension": """\
l1 = [1, 2]
def f():
    v = 5
    for i in [1]:
        a = [v for v in l1]
        b = [v for t in [1, 0]]
    return a, b, v
print(f())
""",
    "B2 local read by a lambda of the loop body": """\
def f():
    v = 5
    for i in [1]:
        a = (lambda: v)()
        b = [7 for v in range(2)]
    return a, b
print(f())
""",
    "B3 global read in the loop body, same name iterates in the loop iterable (3.12.1 only)": """\
l1 = [1, 2]
def f():
    for i in [k for l1 in [7, 9] for k in range(2)]:
        a = len(l1)
    return a
print(f())
""",
}
bad = 0
host = HOSTS[-1] if CURRENT not in HOSTS else CURRENT
for title, src in SCRIPTS.items():
    print("==", title)
    convs = convert_on(host, src)
    for rt in RUNTIMES:
        ref = run_on(rt, "exec", src)
        n, why = 0, ""
        for st, t in convs:
            got = ["exc", t] if st == "err" else run_on(rt, "eval", t)
            if got != ref:
                n += 1
                why = got[1]
        if n:
            bad += 1
            print("  runtime %-8s source -> %r ; converted text: %d/8 option combinations differ: %s" % (rt, ref[1], n, why[:100]))
        else:
            print("  runtime %-8s ok (%r)" % (rt, ref[1]))
print("DEFECT PRESENT" if bad else "no difference")
sys.exit(1 if bad else 0)
